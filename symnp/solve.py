"""Discharging obligations: z3 first, case split / cvc5 on `unknown`, model extraction."""
from __future__ import annotations

import itertools
import time
from fractions import Fraction

import z3

try:
    import cvc5  # noqa: F401
    HAVE_CVC5 = True
except Exception:  # noqa: BLE001
    HAVE_CVC5 = False


class SolveStats:
    def __init__(self):
        self.queries = 0
        self.time = 0.0
        self.unknown = 0
        self.split_rescued = 0
        self.cvc5_rescued = 0
        self.cvc5_checked = 0
        self.cvc5_agree = 0
        self.cvc5_disagree = 0
        self.cvc5_unknown = 0
        self.cvc5_time = 0.0
        self.slow = []
        self.label = ""

    def merge(self, o):
        for k, v in o.__dict__.items():
            if k == "label":
                continue
            if k == "slow":
                self.slow = sorted(self.slow + v, reverse=True)[:10]
                continue
            setattr(self, k, getattr(self, k) + v)


def _solver(timeout_ms):
    s = z3.Solver()
    s.set("timeout", int(timeout_ms))
    return s


def check(formulas, timeout_ms, st: SolveStats):
    """-> ('sat'|'unsat'|'unknown', model|None, solver)"""
    s = _solver(timeout_ms)
    for f in formulas:
        s.add(f)
    t = time.time()
    r = s.check()
    dt = time.time() - t
    st.time += dt
    st.queries += 1
    if dt > 1.0:
        st.slow = sorted(st.slow + [(round(dt, 2), st.label, str(r))], reverse=True)[:10]
    if r == z3.sat:
        return "sat", s.model(), s
    if r == z3.unsat:
        return "unsat", None, s
    return "unknown", None, s


def _bool_atoms(formulas, limit):
    """Uninterpreted Bool constants occurring in the formulas (for case splitting)."""
    seen, out, stack = set(), [], list(formulas)
    while stack:
        e = stack.pop()
        i = e.get_id()
        if i in seen:
            continue
        seen.add(i)
        if z3.is_const(e) and z3.is_bool(e) and e.decl().kind() == z3.Z3_OP_UNINTERPRETED:
            out.append(e)
            if len(out) > limit:
                return None
        else:
            stack.extend(e.children())
    return out


def cvc5_check(smt2: str, timeout_ms: int):
    """Decide an SMT-LIB2 benchmark with cvc5 (Python API). -> 'sat'|'unsat'|'unknown'|'error'"""
    if not HAVE_CVC5:
        return "error"
    import cvc5

    if "declare-fun" not in smt2 and "declare-const" not in smt2:
        pass
    try:
        tm = cvc5.TermManager()
        slv = cvc5.Solver(tm)
        slv.setOption("tlimit-per", str(int(timeout_ms)))
        slv.setOption("produce-models", "false")
        slv.setLogic("ALL")
        parser = cvc5.InputParser(slv)
        parser.setStringInput(cvc5.InputLanguage.SMT_LIB_2_6, smt2, "q")
        sm = parser.getSymbolManager()
        res = "unknown"
        while True:
            cmd = parser.nextCommand()
            if cmd.isNull():
                break
            name = cmd.getCommandName()
            if name == "set-logic":
                continue
            out = cmd.invoke(slv, sm)
            if name == "check-sat":
                o = str(out).strip()
                res = o if o in ("sat", "unsat") else "unknown"
                break
        return res
    except Exception:  # noqa: BLE001
        return "error"


def _free_consts(e, memo):
    k = e.get_id()
    r = memo.get(k)
    if r is not None:
        return r
    out = set()
    stack, seen = [e], set()
    while stack:
        x = stack.pop()
        i = x.get_id()
        if i in seen:
            continue
        seen.add(i)
        if z3.is_const(x):
            if x.decl().kind() == z3.Z3_OP_UNINTERPRETED:
                out.add(i)
        else:
            stack.extend(x.children())
    memo[k] = out
    return out


def cone_of_influence(ctx, goal):
    """Conjuncts of ctx that (transitively) share a free constant with goal.
    Dropping conjuncts only weakens the antecedent, so `unsat` stays sound."""
    memo = {}
    vs = set(_free_consts(goal, memo))
    sets = [_free_consts(c, memo) for c in ctx]
    keep = [False] * len(ctx)
    changed = True
    while changed:
        changed = False
        for i, sset in enumerate(sets):
            if not keep[i] and (sset & vs or not sset):
                keep[i] = True
                if not sset <= vs:
                    vs |= sset
                    changed = True
    return [c for c, k in zip(ctx, keep) if k]


def _pick_cond(formulas):
    """The condition that guards the most arithmetic if-then-else terms (None if there is none)."""
    count, terms, seen = {}, {}, set()
    stack = list(formulas)
    while stack:
        e = stack.pop()
        i = e.get_id()
        if i in seen:
            continue
        seen.add(i)
        if not z3.is_app(e):
            continue
        if e.decl().kind() == z3.Z3_OP_ITE and not z3.is_bool(e):
            c = e.arg(0)
            if c.decl().kind() == z3.Z3_OP_NOT:
                c = c.arg(0)
            k = c.get_id()
            count[k] = count.get(k, 0) + 1
            terms[k] = c
        stack.extend(e.children())
    if not count:
        return None
    k = max(count, key=lambda x: (count[x], -x))
    return terms[k]


def _split(fs, st, budget, assign, leaf_tmo, node_tmo):
    """Recursive case split on the conditions of arithmetic if-then-else terms (failure
    flags, sign tests).  Inner nodes get a short solver timeout (prunes infeasible
    sub-trees); once no such term is left the query is a plain polynomial problem."""
    if budget[0] <= 0:
        return "unknown", None
    budget[0] -= 1
    c = _pick_cond(fs)
    r, m, _ = check(fs, node_tmo if c is not None else leaf_tmo, st)
    if r == "unsat":
        return "unsat", None
    if r == "sat":
        return "sat", assign
    if c is None:
        try:  # last resort at a leaf: polynomial form
            q2, dens = clear_denominators(fs)
            r2, _, _ = check(q2 + [d != 0 for d in dens], leaf_tmo, st)
            if r2 == "unsat" and all(check(fs + [d == 0], leaf_tmo, st)[0] == "unsat" for d in dens):
                return "unsat", None
        except z3.Z3Exception:
            pass
        return "unknown", None
    unknown = False
    for v in (False, True):
        lit = c if v else z3.Not(c)
        sub = [z3.simplify(z3.substitute(f, (c, z3.BoolVal(v)))) for f in fs]
        if any(z3.is_false(f) for f in sub):
            continue
        sub = [f for f in sub if not z3.is_true(f)]
        sub.append(z3.simplify(lit))
        r, asg = _split(sub, st, budget, assign + [lit], leaf_tmo, node_tmo)
        if r == "sat":
            return "sat", asg
        if r == "unknown":
            unknown = True
            break
    return ("unknown" if unknown else "unsat"), None


def discharge(ctx, neg, timeout_ms, st: SolveStats, *, use_cvc5=True, cross=False, split_budget=1500):
    """Decide sat/unsat of And(ctx, neg) with escalation.  -> (result, model)

    1. cone-of-influence reduced query (unsat there is unsat for the full query);
    2. the full query;  3. recursive case split on flags / sign atoms (with denominator
    clearing at the leaves);  4. cvc5.  `unknown` after all that is inconclusive."""
    full = list(ctx) + [neg]
    red_ctx = cone_of_influence(ctx, neg)
    red = red_ctx + [neg]
    reduced = len(red_ctx) < len(ctx)
    first_tmo = min(timeout_ms, 3000)
    r, m, s = check(red, first_tmo, st)
    if r == "sat" and reduced:
        r, m, s = check(full, timeout_ms, st)
    if r == "unknown":
        st.unknown += 1
        if True:
            budget = [split_budget]
            res, assign = _split(red, st, budget, [], timeout_ms, 100)
            if res == "unsat":
                st.split_rescued += 1
                return "unsat", None
            if res == "sat":
                r3, m3, _ = check(full + list(assign), timeout_ms, st)
                if r3 == "sat":
                    st.split_rescued += 1
                    return "sat", m3
        if use_cvc5 and HAVE_CVC5:
            s2 = _solver(timeout_ms)
            for f in red:
                s2.add(f)
            t4 = time.time()
            r4 = cvc5_check(s2.to_smt2(), timeout_ms)
            st.cvc5_time += time.time() - t4
            if r4 == "unsat":
                st.cvc5_rescued += 1
                return "unsat", None
        return "unknown", None
    if cross and HAVE_CVC5:
        st.cvc5_checked += 1
        s2 = _solver(timeout_ms)
        for f in (red if r == "unsat" else full):
            s2.add(f)
        t4 = time.time()
        r4 = cvc5_check(s2.to_smt2(), min(timeout_ms, 3000))
        st.cvc5_time += time.time() - t4
        if r4 in ("sat", "unsat"):
            if r4 == r:
                st.cvc5_agree += 1
            else:
                st.cvc5_disagree += 1
        else:
            st.cvc5_unknown += 1
    return r, m


def mval(model, term):
    """Value of a z3 term under a model as Fraction | bool | int."""
    v = model.eval(term, model_completion=True)
    if z3.is_true(v):
        return True
    if z3.is_false(v):
        return False
    if z3.is_int_value(v):
        return v.as_long()
    if z3.is_rational_value(v):
        return Fraction(v.numerator_as_long(), v.denominator_as_long())
    if z3.is_algebraic_value(v):
        a = v.approx(30)
        return Fraction(a.numerator_as_long(), a.denominator_as_long())
    if z3.is_fp(v):
        return _fp_to_float(v)
    if z3.is_string_value(v):
        return v.as_string()
    raise ValueError(f"cannot read model value {v}")


def _fp_to_float(v):
    import math
    if z3.is_fp_value(v) if hasattr(z3, "is_fp_value") else True:
        if v.isNaN():
            return float("nan")
        if v.isInf():
            return -math.inf if v.isNegative() else math.inf
        if v.isZero():
            return -0.0 if v.isNegative() else 0.0
        import struct
        sign = 1 if v.isNegative() else 0
        exp = v.exponent_as_long(biased=True)
        sig = v.significand_as_long()
        bits = (sign << 63) | (exp << 52) | sig
        return struct.unpack(">d", struct.pack(">Q", bits))[0]
    raise ValueError("fp")


# --------------------------------------------------------------------------
# clearing denominators: rewrite every arithmetic atom  l op r  as a polynomial
# atom  N*D op 0  with (N, D) the numerator/denominator of l - r.  Sound on the
# region where every denominator met is non-zero; `clear_denominators` returns
# those denominators so the caller can (a) assert them non-zero in the rewritten
# query and (b) show separately that the original query has no model with a
# zero denominator.
# --------------------------------------------------------------------------
_ONE = z3.RealVal(1)


def _is_one(t):
    return z3.is_rational_value(t) and t.numerator_as_long() == t.denominator_as_long()


def _mul(a, b):
    if _is_one(a):
        return b
    if _is_one(b):
        return a
    return a * b


class _Rat:
    def __init__(self):
        self.memo = {}
        self.dens = {}

    def nd(self, t):
        k = t.get_id()
        r = self.memo.get(k)
        if r is not None:
            return r
        r = self._nd(t)
        self.memo[k] = r
        return r

    def _nd(self, t):
        if not z3.is_app(t) or t.num_args() == 0:
            return t, _ONE
        kind = t.decl().kind()
        ch = t.children()
        if kind == z3.Z3_OP_ADD:
            n, d = self.nd(ch[0])
            for c in ch[1:]:
                n2, d2 = self.nd(c)
                if d.eq(d2):
                    n = n + n2
                else:
                    n, d = _mul(n, d2) + _mul(n2, d), _mul(d, d2)
            return n, d
        if kind == z3.Z3_OP_SUB:
            n, d = self.nd(ch[0])
            for c in ch[1:]:
                n2, d2 = self.nd(c)
                if d.eq(d2):
                    n = n - n2
                else:
                    n, d = _mul(n, d2) - _mul(n2, d), _mul(d, d2)
            return n, d
        if kind == z3.Z3_OP_UMINUS:
            n, d = self.nd(ch[0])
            return -n, d
        if kind == z3.Z3_OP_MUL:
            n, d = self.nd(ch[0])
            for c in ch[1:]:
                n2, d2 = self.nd(c)
                n, d = _mul(n, n2), _mul(d, d2)
            return n, d
        if kind == z3.Z3_OP_DIV:
            n1, d1 = self.nd(ch[0])
            n2, d2 = self.nd(ch[1])
            if z3.is_rational_value(n2) and _is_one(d2):
                return n1 / n2 if not _is_one(n2) else n1, d1
            self.dens[n2.get_id()] = n2
            return _mul(n1, d2), _mul(d1, n2)
        if kind == z3.Z3_OP_POWER and z3.is_rational_value(ch[1]) and ch[1].denominator_as_long() == 1 \
                and 0 <= ch[1].numerator_as_long() <= 4:
            n, d = self.nd(ch[0])
            k = ch[1].numerator_as_long()
            rn, rd = _ONE, _ONE
            for _ in range(k):
                rn, rd = _mul(rn, n), _mul(rd, d)
            return rn, rd
        if kind == z3.Z3_OP_ITE and z3.is_real(t):
            c = self.formula(ch[0])
            n1, d1 = self.nd(ch[1])
            n2, d2 = self.nd(ch[2])
            if d1.eq(d2):
                return z3.If(c, n1, n2), d1
            return z3.If(c, _mul(n1, d2), _mul(n2, d1)), _mul(d1, d2)
        # anything else (ToReal, uninterpreted functions, ...): an atom, but rewrite inside
        return t, _ONE

    def formula(self, f):
        k = ("f", f.get_id())
        r = self.memo.get(k)
        if r is not None:
            return r
        r = self._formula(f)
        self.memo[k] = r
        return r

    def _formula(self, f):
        if not z3.is_app(f) or f.num_args() == 0:
            return f
        kind = f.decl().kind()
        ch = f.children()
        if kind in (z3.Z3_OP_LE, z3.Z3_OP_GE, z3.Z3_OP_LT, z3.Z3_OP_GT) or (
                kind in (z3.Z3_OP_EQ, z3.Z3_OP_DISTINCT) and z3.is_real(ch[0]) and len(ch) == 2):
            if not z3.is_real(ch[0]):
                return f
            n1, d1 = self.nd(ch[0])
            n2, d2 = self.nd(ch[1])
            if _is_one(d1) and _is_one(d2):
                l, r = n1, n2
                if kind == z3.Z3_OP_LE:
                    return l <= r
                if kind == z3.Z3_OP_GE:
                    return l >= r
                if kind == z3.Z3_OP_LT:
                    return l < r
                if kind == z3.Z3_OP_GT:
                    return l > r
                if kind == z3.Z3_OP_EQ:
                    return l == r
                return l != r
            n = _mul(n1, d2) - _mul(n2, d1)
            d = _mul(d1, d2)
            if kind == z3.Z3_OP_EQ:
                return n == 0
            if kind == z3.Z3_OP_DISTINCT:
                return n != 0
            p = _mul(n, d)  # same sign as n/d wherever d != 0
            if kind == z3.Z3_OP_LE:
                return p <= 0
            if kind == z3.Z3_OP_GE:
                return p >= 0
            if kind == z3.Z3_OP_LT:
                return p < 0
            return p > 0
        if z3.is_bool(f):
            new = [self.formula(c) if z3.is_bool(c) else c for c in ch]
            if kind == z3.Z3_OP_AND:
                return z3.And(*new)
            if kind == z3.Z3_OP_OR:
                return z3.Or(*new)
            if kind == z3.Z3_OP_NOT:
                return z3.Not(new[0])
            if kind == z3.Z3_OP_IMPLIES:
                return z3.Implies(new[0], new[1])
            if kind == z3.Z3_OP_ITE:
                return z3.If(new[0], new[1], new[2])
            if kind in (z3.Z3_OP_EQ, z3.Z3_OP_IFF) and z3.is_bool(ch[0]):
                return new[0] == new[1]
            if kind == z3.Z3_OP_XOR:
                return z3.Xor(new[0], new[1])
        return f


def clear_denominators(formulas):
    """-> (rewritten formulas, list of denominator terms that were assumed non-zero)"""
    r = _Rat()
    out = [z3.simplify(r.formula(f), som=True) for f in formulas]
    return out, list(r.dens.values())
