"""SymStr: a bounded symbolic ASCII string (list of symbolic character codes + symbolic length).

Only what name-lookup code needs: ==, hash (dict/set membership), lower(), split(sep, maxsplit=1),
rpartition(sep), formatting.  `hash()` forks over the candidate constants registered by the harness
(every key of the dictionaries/sets the string can meet) plus an "other" class whose path condition
excludes them all, so dict.get / `in` keep Python's semantics; `==` stays symbolic.
"""
from __future__ import annotations

import z3

from .core import SB, b_and, b_fold, b_not, b_or, ctx, i_fold, zi

CANDIDATES: list[str] = []
_OTHER_HASH = hash("\x00symstr-other\x00")


def set_candidates(cands):
    CANDIDATES[:] = sorted(set(cands))


def _is_conc(x):
    return isinstance(x, int)


class SymStr:
    __slots__ = ("chars", "n")

    def __init__(self, chars, n):
        self.chars = list(chars)   # int | z3 Int
        self.n = i_fold(n) if not isinstance(n, int) else n

    @staticmethod
    def fresh(name, maxlen):
        chars = [z3.Int(f"{name}_c{i}") for i in range(maxlen)]
        n = z3.Int(f"{name}_len")
        return SymStr(chars, n)

    def constraints(self, lo=33, hi=126):
        cs = [self.n >= 0, self.n <= len(self.chars)] if not isinstance(self.n, int) else []
        for c in self.chars:
            if not _is_conc(c):
                cs.append(z3.And(c >= lo, c <= hi))
        return cs

    # ---- comparisons
    def eq_const(self, s: str):
        if len(s) > len(self.chars):
            return False
        parts = [self.n == len(s) if not isinstance(self.n, int) else self.n == len(s)]
        for i, ch in enumerate(s):
            c = self.chars[i]
            parts.append(c == ord(ch))
        return b_and(*[p if isinstance(p, bool) else p for p in parts])

    def __eq__(self, o):
        if isinstance(o, str):
            return SB(self.eq_const(o))
        if isinstance(o, SymStr):
            m = min(len(self.chars), len(o.chars))
            parts = [zi(self.n) == zi(o.n)]
            for i in range(m):
                parts.append(z3.Or(zi(self.n) <= i, zi(self.chars[i]) == zi(o.chars[i])))
            return SB(b_and(*parts))
        return NotImplemented

    def __ne__(self, o):
        r = self.__eq__(o)
        return r if r is NotImplemented else ~r

    def __hash__(self):
        c = ctx()
        for cand in CANDIDATES:
            if c.branch(zb_(self.eq_const(cand))):
                return hash(cand)
        return _OTHER_HASH

    def __len__(self):
        if isinstance(self.n, int):
            return self.n
        return ctx().choose_int(self.n, 0, len(self.chars))

    def __bool__(self):
        return len(self) > 0

    # ---- transformations
    def lower(self):
        out = []
        for c in self.chars:
            if _is_conc(c):
                out.append(c + 32 if 65 <= c <= 90 else c)
            else:
                out.append(z3.If(z3.And(c >= 65, c <= 90), c + 32, c))
        return SymStr(out, self.n)

    def _first_sep(self, sep):
        """Fork on the position of the first occurrence of the 1-character separator (None if absent)."""
        assert len(sep) == 1
        code = ord(sep)
        c = ctx()
        L = len(self.chars)
        for k in range(L):
            cond = b_and(zi(self.n) > k, zi(self.chars[k]) == code,
                         *[zi(self.chars[j]) != code for j in range(k)])
            if c.branch(zb_(cond)):
                return k
        return None

    def split(self, sep=None, maxsplit=-1):
        if sep is None or len(sep) != 1 or maxsplit != 1:
            raise NotImplementedError("SymStr.split supports split(<char>, maxsplit=1)")
        k = self._first_sep(sep)
        if k is None:
            return [self]
        return [SymStr(self.chars[:k], k), SymStr(self.chars[k + 1:], i_fold(zi(self.n) - (k + 1)))]

    def _last_sep(self, sep):
        """Fork on the position of the last occurrence of the 1-character separator (None if absent)."""
        assert len(sep) == 1
        code = ord(sep)
        c = ctx()
        L = len(self.chars)
        for k in range(L - 1, -1, -1):
            cond = b_and(zi(self.n) > k, zi(self.chars[k]) == code,
                         *[b_or(zi(self.n) <= j, zi(self.chars[j]) != code) for j in range(k + 1, L)])
            if c.branch(zb_(cond)):
                return k
        return None

    def rsplit(self, sep=None, maxsplit=-1):
        if sep is None or len(sep) != 1 or maxsplit != 1:
            raise NotImplementedError("SymStr.rsplit supports rsplit(<char>, maxsplit=1)")
        k = self._last_sep(sep)
        if k is None:
            return [self]
        return [SymStr(self.chars[:k], k), SymStr(self.chars[k + 1:], i_fold(zi(self.n) - (k + 1)))]

    def rpartition(self, sep):
        k = self._last_sep(sep)
        if k is None:
            return ("", "", self)
        return (SymStr(self.chars[:k], k), sep, SymStr(self.chars[k + 1:], i_fold(zi(self.n) - (k + 1))))

    def casefold(self):
        return self.lower()   # identical on the ASCII alphabet of the bound

    def partition(self, sep):
        k = self._first_sep(sep)
        if k is None:
            return (self, "", "")
        return (SymStr(self.chars[:k], k), sep, SymStr(self.chars[k + 1:], i_fold(zi(self.n) - (k + 1))))

    def strip(self):
        return self

    def __format__(self, spec):
        return "<symbolic string>"

    def __str__(self):
        return "<symbolic string>"

    __repr__ = __str__

    def concretize(self, model):
        from .solve import mval
        n = self.n if isinstance(self.n, int) else int(mval(model, self.n))
        out = []
        for i in range(n):
            c = self.chars[i]
            out.append(chr(c if _is_conc(c) else int(mval(model, c))))
        return "".join(out)


def zb_(x):
    x = b_fold(x)
    if isinstance(x, bool):
        return x
    return x
