"""SymArray: an object ndarray of symbolic scalars that answers NumPy's dispatch
protocols, so ropt's own ``np.*`` calls land in the handlers below.

Structural operations are delegated to NumPy on the object array (views and
aliasing are NumPy's own); numeric operations are evaluated element-wise on the
scalars of symnp.core.
"""
from __future__ import annotations

import math
import operator
from fractions import Fraction

import numpy as np
import z3

from .core import (
    SB, SF, SInt, SR, b_and, b_fold, b_ite, b_not, b_or, ctx, frac, lift, r_ite,
    sqrt_sr, tob, tor, zb, zi, zr, i_fold, PathAbort,
)

HANDLED: dict = {}


def impl(*fs):
    def d(g):
        for f in fs:
            HANDLED[f] = g
        return g

    return d


def _lift_arr(a: np.ndarray) -> np.ndarray:
    if a.dtype != object:
        if a.dtype.kind in "fb":
            out = np.empty(a.shape, dtype=object)
            flat = out.reshape(-1) if out.size else out
            src = a.reshape(-1)
            for i in range(src.size):
                flat[i] = lift(src[i])
            return out
        return a  # integer / other arrays stay concrete
    return a


_vlift = np.frompyfunc(lift, 1, 1)


def W(a):
    """wrap a NumPy result"""
    if isinstance(a, np.ndarray):
        if a.dtype == object:
            if a.size:
                a = _vlift(a) if not _all_lifted(a) else a
            return SymArray(a)
        return a
    if isinstance(a, (list, tuple)):
        return type(a)(W(x) for x in a)
    return lift(a) if isinstance(a, (float, np.floating, bool, np.bool_)) else a


def _all_lifted(a):
    for x in a.flat:
        if not isinstance(x, (SR, SB, SInt, SF)):
            return False
    return True


def U(x):
    """unwrap to an object ndarray of lifted scalars (concrete int/index arrays are left alone)"""
    if isinstance(x, SymArray):
        return x.a
    if isinstance(x, (SR, SB, SInt, SF)):
        return x
    if isinstance(x, np.ndarray):
        if x.dtype == object:
            return x
        if x.dtype.kind in "fb":
            return _lift_arr(x)
        return x
    if isinstance(x, (float, np.floating, bool, np.bool_)):
        return lift(x)
    if isinstance(x, (list, tuple)):
        if any(isinstance(y, (SymArray, SR, SB, SInt, SF)) for y in _flat(x)):
            return _lift_arr(np.array(_unwrap_nested(x), dtype=object))
        a = np.asarray(x)
        return _lift_arr(a) if a.dtype.kind in "fb" else a
    return x


def _flat(x):
    for y in x:
        if isinstance(y, (list, tuple)):
            yield from _flat(y)
        else:
            yield y


def _unwrap_nested(x):
    if isinstance(x, SymArray):
        return x.a.tolist() if x.ndim else x.a[()]
    if isinstance(x, (list, tuple)):
        return [_unwrap_nested(y) for y in x]
    if isinstance(x, np.ndarray):
        return x.tolist()
    return x


def UF(x):
    """unwrap *as numbers* (ints lifted too) - for arithmetic handlers"""
    x = U(x)
    if isinstance(x, np.ndarray) and x.dtype != object:
        out = np.empty(x.shape, dtype=object)
        if x.ndim == 0:
            out[()] = lift(x[()])
        else:
            flat = out.reshape(-1)
            src = x.reshape(-1)
            for i in range(src.size):
                flat[i] = lift(src[i])
        return out
    if isinstance(x, (int, np.integer)):
        return lift(x)
    return x


def is_sym(x):
    return isinstance(x, (SymArray, SR, SB, SInt, SF))


class Flags:
    __slots__ = ("writeable",)

    def __init__(self, w=True):
        self.writeable = w

    def __getitem__(self, k):
        if k in ("WRITEABLE", "W"):
            return self.writeable
        raise KeyError(k)


def _num(x):
    return tor(x) if not isinstance(x, SF) else x


_OPS = {
    np.add: lambda x, y: _num(x) + _num(y),
    np.subtract: lambda x, y: _num(x) - _num(y),
    np.multiply: lambda x, y: _num(x) * _num(y),
    np.true_divide: lambda x, y: _num(x) / _num(y),
    np.negative: lambda x: -_num(x),
    np.positive: lambda x: x,
    np.less: lambda x, y: _num(x) < _num(y),
    np.greater: lambda x, y: _num(x) > _num(y),
    np.less_equal: lambda x, y: _num(x) <= _num(y),
    np.greater_equal: lambda x, y: _num(x) >= _num(y),
    np.equal: lambda x, y: (tob(x) == tob(y)) if isinstance(x, SB) or isinstance(y, SB) and not isinstance(x, SR) else _num(x) == _num(y),
    np.not_equal: lambda x, y: (tob(x) != tob(y)) if isinstance(x, SB) or isinstance(y, SB) and not isinstance(x, SR) else _num(x) != _num(y),
    np.invert: lambda x: ~tob(x),
    np.logical_not: lambda x: ~_truth(x),
    np.logical_and: lambda x, y: _truth(x) & _truth(y),
    np.logical_or: lambda x, y: _truth(x) | _truth(y),
    np.logical_xor: lambda x, y: _truth(x) ^ _truth(y),
    np.bitwise_and: lambda x, y: tob(x) & tob(y),
    np.bitwise_or: lambda x, y: tob(x) | tob(y),
    np.bitwise_xor: lambda x, y: tob(x) ^ tob(y),
    np.isnan: lambda x: SB(tor(x).nan),
    np.isfinite: lambda x: SB(b_and(b_not(tor(x).nan), tor(x).inf == 0)),
    np.isinf: lambda x: SB(b_and(b_not(tor(x).nan), tor(x).inf != 0)),
    np.absolute: lambda x: abs(tor(x)),
    np.fabs: lambda x: abs(tor(x)),
    np.sqrt: lambda x: sqrt_sr(tor(x)),
    np.square: lambda x: tor(x) * tor(x),
    np.maximum: lambda x, y: _max(tor(x), tor(y)),
    np.minimum: lambda x, y: _min(tor(x), tor(y)),
    np.fmax: lambda x, y: _fmax(tor(x), tor(y)),
    np.fmin: lambda x, y: _fmin(tor(x), tor(y)),
    np.power: lambda x, k: tor(x) ** k,
    np.sign: lambda x: _sign(tor(x)),
    np.remainder: lambda x, y: _num(x) % _num(y),
    np.floor_divide: lambda x, y: tor(x) // tor(y),
}


def _truth(x):
    if isinstance(x, SB):
        return x
    if isinstance(x, (bool, np.bool_)):
        return SB(bool(x))
    return tor(x) != 0


def _same_inf(x, y):
    return x.inf == y.inf


def ite_s(c, x, y):
    """if-then-else on scalars; forks when the (concrete) infinity tags differ."""
    c = tob(c).t
    if c is True:
        return x
    if c is False:
        return y
    if isinstance(x, SB) or isinstance(y, SB):
        return SB(b_ite(c, tob(x).t, tob(y).t))
    if isinstance(x, SInt) and isinstance(y, SInt):
        return SInt(z3.If(c, zi(x.t), zi(y.t)), min(x.lo, y.lo), max(x.hi, y.hi))
    if isinstance(x, SF) or isinstance(y, SF):
        return SF(z3.If(c, SF._t(x), SF._t(y)))
    x, y = tor(x), tor(y)
    if x.inf != y.inf:
        # infinity tag must stay concrete: fork unless NaN flags make it irrelevant
        return x if ctx().branch(c) else y
    return SR(r_ite(c, x.v, y.v), b_ite(c, x.nan, y.nan), x.inf)


def _max(x, y):
    # np.maximum propagates NaN
    nan = b_or(x.nan, y.nan)
    if nan is True:
        return SR(Fraction(0), True)
    r = ite_s(_ge_nonan(x, y), _strip(x), _strip(y))
    return SR(r.v, nan, r.inf)


def _min(x, y):
    nan = b_or(x.nan, y.nan)
    if nan is True:
        return SR(Fraction(0), True)
    r = ite_s(_ge_nonan(y, x), _strip(x), _strip(y))
    return SR(r.v, nan, r.inf)


def _fmax(x, y):
    # np.fmax ignores a NaN operand (NaN only when both are)
    return ite_s(SB(x.nan), y, ite_s(SB(y.nan), x, _max(_strip(x), _strip(y))))


def _fmin(x, y):
    return ite_s(SB(x.nan), y, ite_s(SB(y.nan), x, _min(_strip(x), _strip(y))))


def _strip(x):
    return SR(x.v, False, x.inf)


def _ge_nonan(x, y):
    return _strip(x) >= _strip(y)


def _sign(x):
    if x.inf:
        return SR(Fraction(x.inf), x.nan)
    if isinstance(x.v, Fraction):
        return SR(Fraction((x.v > 0) - (x.v < 0)), x.nan)
    return SR(z3.If(x.v > 0, z3.RealVal(1), z3.If(x.v < 0, z3.RealVal(-1), z3.RealVal(0))), x.nan)


def _ew(f, nin):
    return np.frompyfunc(f, nin, 1)


def _bcast(*xs):
    arrs = []
    for x in xs:
        if isinstance(x, np.ndarray):
            arrs.append(x)
        else:
            a = np.empty((), dtype=object)
            a[()] = x
            arrs.append(a)
    return np.broadcast_arrays(*arrs)


def elementwise(f, *ins):
    ins = [UF(i) for i in ins]
    if not any(isinstance(i, np.ndarray) for i in ins):
        return f(*ins)
    bs = _bcast(*ins)
    out = np.empty(bs[0].shape, dtype=object)
    if out.ndim == 0:
        out[()] = f(*[b[()] for b in bs])
        return out
    for idx in np.ndindex(out.shape):
        out[idx] = f(*[b[idx] for b in bs])
    return out


class SymArray:
    __array_priority__ = 1000

    def __init__(self, a, writeable=True):
        if isinstance(a, SymArray):
            a = a.a
        if not (isinstance(a, np.ndarray) and a.dtype == object):
            src = np.asarray(a)
            if src.dtype != object:
                a = _lift_arr(src) if src.dtype.kind in "fb" else src.astype(object)
            else:
                a = src
        self.a = a
        self.flags = Flags(writeable)

    # ---- array attributes
    shape = property(lambda s: s.a.shape)
    ndim = property(lambda s: s.a.ndim)
    size = property(lambda s: s.a.size)

    @property
    def T(self):
        return SymArray(self.a.T, self.flags.writeable)

    @property
    def dtype(self):
        k = self.kind
        return np.dtype(bool) if k == "b" else (np.dtype(np.int64) if k == "i" else np.dtype(np.float64))

    @property
    def kind(self):
        for x in self.a.flat:
            if isinstance(x, SB):
                return "b"
            if isinstance(x, SInt):
                return "i"
            return "f"
        return "f"

    @property
    def base(self):
        return self.a.base

    def setflags(self, write=None, **kw):
        if write is not None:
            self.flags.writeable = bool(write)

    def __len__(self):
        return len(self.a)

    def __iter__(self):
        for x in self.a:
            yield SymArray(x, self.flags.writeable) if isinstance(x, np.ndarray) else x

    def __deepcopy__(self, memo):
        return self.copy()

    def __copy__(self):
        return self.copy()

    def __array__(self, dtype=None, copy=None):
        """Concretise: a truth-valued array forks per element; a numeric array must be concrete."""
        out = np.empty(self.a.shape, dtype=object)
        kind = self.kind
        if self.a.ndim == 0:
            x = self.a[()]
            out[()] = bool(x) if isinstance(x, SB) else (int(x) if isinstance(x, SInt) else tor(x).to_float())
        else:
            for idx in np.ndindex(self.a.shape):
                x = self.a[idx]
                out[idx] = bool(x) if isinstance(x, SB) else (int(x) if isinstance(x, SInt) else tor(x).to_float())
        dt = dtype or (bool if kind == "b" else (np.int64 if kind == "i" else np.float64))
        return out.astype(dt)

    def tolist(self):
        return self.a.tolist()

    def item(self, *a):
        return self.a.item(*a)

    # ---- indexing
    def _key1(self, k):
        if isinstance(k, SymArray):
            if k.kind == "b":
                return np.asarray(k, dtype=bool)  # forks per element
            return np.asarray(k, dtype=np.int64)
        if isinstance(k, (SInt,)):
            return k.__index__()
        if isinstance(k, slice):
            return slice(*[x.__index__() if isinstance(x, SInt) else x for x in (k.start, k.stop, k.step)])
        if isinstance(k, list) and any(isinstance(x, (SB, SInt)) for x in k):
            return [bool(x) if isinstance(x, SB) else int(x) for x in k]
        return k

    def _key(self, k):
        if isinstance(k, tuple):
            return tuple(self._key1(x) for x in k)
        return self._key1(k)

    def __getitem__(self, k):
        r = self.a[self._key(k)]
        if isinstance(r, np.ndarray):
            return SymArray(r, self.flags.writeable)
        return r

    @staticmethod
    def _is_symmask(k):
        return isinstance(k, SymArray) and k.kind == "b" and not all(x.concrete for x in k.a.flat)

    def __setitem__(self, k, v):
        if not self.flags.writeable:
            raise ValueError("assignment destination is read-only")
        # symbolic boolean mask (optionally followed by full slices / ellipsis): merge with ite
        mk, rest = (k, ()) if not isinstance(k, tuple) else (k[0], k[1:])
        if self._is_symmask(mk) and all((isinstance(r, slice) and r == slice(None)) or r is Ellipsis for r in rest):
            m = mk.a
            val = UF(v)
            tgt = self.a
            if m.shape != tgt.shape[: m.ndim]:
                raise IndexError("boolean index did not match indexed array")
            if isinstance(val, np.ndarray) and val.ndim > 0:
                # a shaped right-hand side needs the mask count: fall back to forking
                self.a[self._key(k)] = val
                return
            for idx in np.ndindex(tgt.shape):
                c = m[idx[: m.ndim]]
                tgt[idx] = ite_s(c, val if not isinstance(val, np.ndarray) else val[()], tgt[idx])
            return
        val = U(v)
        if isinstance(val, np.ndarray) and val.dtype != object:
            val = UF(val)
        elif not isinstance(val, np.ndarray):
            val = lift(val)
        self.a[self._key(k)] = val

    # ---- methods mirrored from ndarray
    def copy(self, order="C"):
        return SymArray(self.a.copy())

    def view(self, *a, **k):
        return SymArray(self.a.view(), self.flags.writeable)

    def astype(self, dtype, **kw):
        dt = np.dtype(dtype)
        if dt.kind == "f":
            return SymArray(elementwise(lambda x: tor(x), self.a)) if self.kind != "f" else self.copy()
        if dt.kind == "b":
            return SymArray(elementwise(_truth, self.a))
        if dt.kind in "iu":
            return np.asarray(self).astype(dt)
        return self.copy()

    def sum(self, axis=None, **kw):
        return np.sum(self, axis=axis, **kw)

    def any(self, axis=None, **kw):
        return np.any(self, axis=axis)

    def all(self, axis=None, **kw):
        return np.all(self, axis=axis)

    def max(self, axis=None, **kw):
        return np.max(self, axis=axis)

    def min(self, axis=None, **kw):
        return np.min(self, axis=axis)

    def mean(self, axis=None, **kw):
        return np.mean(self, axis=axis)

    def flatten(self, order="C"):
        return SymArray(self.a.flatten())

    def ravel(self, order="C"):
        return SymArray(self.a.ravel(), self.flags.writeable)

    def reshape(self, *s, **kw):
        return SymArray(self.a.reshape(*s), self.flags.writeable)

    def transpose(self, *axes):
        return SymArray(self.a.transpose(*axes), self.flags.writeable)

    def squeeze(self, axis=None):
        return SymArray(self.a.squeeze(axis), self.flags.writeable)

    def swapaxes(self, a, b):
        return SymArray(self.a.swapaxes(a, b), self.flags.writeable)

    def fill(self, v):
        if not self.flags.writeable:
            raise ValueError("assignment destination is read-only")
        self.a.fill(lift(v))

    def dot(self, o):
        return np.dot(self, o)

    def nonzero(self):
        return np.nonzero(np.asarray(self))

    def clip(self, lo=None, hi=None, **kw):
        return np.clip(self, lo, hi)

    # ---- dispatch
    def __array_ufunc__(self, ufunc, method, *inputs, **kw):
        out = kw.pop("out", None)
        where = kw.pop("where", True)
        if ufunc is np.matmul and method == "__call__":
            return _matmul(*inputs)
        if method == "reduce":
            return _reduce(ufunc, inputs[0], **kw)
        if method == "at" or method != "__call__":
            raise NotImplementedError(f"ufunc {ufunc.__name__}.{method}")
        f = _OPS.get(ufunc)
        if f is None:
            raise NotImplementedError(f"ufunc {ufunc.__name__}")
        if where is not True:
            # evaluate only where the condition holds (np.divide(..., where=...))
            tgt = out[0]
            if not tgt.flags.writeable:
                raise ValueError("output array is read-only")
            ins = [UF(i) for i in inputs]
            bs = _bcast(*ins, U(where), tgt.a)
            res = np.empty(tgt.a.shape, dtype=object)
            for idx in np.ndindex(tgt.a.shape):
                c = bs[-2][idx]
                c = tob(c).t
                if c is False:
                    res[idx] = bs[-1][idx]
                elif c is True:
                    res[idx] = f(*[b[idx] for b in bs[: len(ins)]])
                else:
                    if ctx().branch(c):
                        res[idx] = f(*[b[idx] for b in bs[: len(ins)]])
                    else:
                        res[idx] = bs[-1][idx]
            tgt.a[...] = res
            return tgt
        r = elementwise(f, *inputs)
        if out is not None:
            tgt = out[0]
            if isinstance(tgt, SymArray):
                if not tgt.flags.writeable:
                    raise ValueError("output array is read-only")
                tgt.a[...] = r
                return tgt
            raise TypeError("symbolic result written into a concrete array")
        return W(r) if isinstance(r, np.ndarray) else r

    def __array_function__(self, func, types, args, kwargs):
        h = HANDLED.get(func)
        if h is not None:
            return h(*args, **kwargs)
        if func in STRUCT:
            r = func(*[_u_struct(a) for a in args], **{k: _u_struct(v) for k, v in kwargs.items()})
            return W(r)
        raise NotImplementedError(f"numpy.{func.__name__} has no symbolic handler")

    # ---- operators
    def _bin(uf, rev=False):
        if rev:
            return lambda s, o: uf(o, s)
        return lambda s, o: uf(s, o)

    def _inplace(uf):
        def f(s, o):
            if not s.flags.writeable:
                raise ValueError("output array is read-only")
            r = uf(s, o)
            ra = r.a if isinstance(r, SymArray) else r
            if isinstance(ra, np.ndarray) and ra.shape != s.a.shape:
                raise ValueError("non-broadcastable output operand")
            s.a[...] = ra
            return s

        return f

    __add__ = _bin(np.add)
    __radd__ = _bin(np.add, True)
    __sub__ = _bin(np.subtract)
    __rsub__ = _bin(np.subtract, True)
    __mul__ = _bin(np.multiply)
    __rmul__ = _bin(np.multiply, True)
    __truediv__ = _bin(np.true_divide)
    __rtruediv__ = _bin(np.true_divide, True)
    __lt__ = _bin(np.less)
    __gt__ = _bin(np.greater)
    __le__ = _bin(np.less_equal)
    __ge__ = _bin(np.greater_equal)
    __eq__ = _bin(np.equal)
    __ne__ = _bin(np.not_equal)
    __or__ = _bin(np.bitwise_or)
    __ror__ = _bin(np.bitwise_or, True)
    __and__ = _bin(np.bitwise_and)
    __rand__ = _bin(np.bitwise_and, True)
    __xor__ = _bin(np.bitwise_xor)
    __iadd__ = _inplace(np.add)
    __isub__ = _inplace(np.subtract)
    __imul__ = _inplace(np.multiply)
    __itruediv__ = _inplace(np.true_divide)
    __ior__ = _inplace(np.bitwise_or)
    __iand__ = _inplace(np.bitwise_and)
    __hash__ = None

    def __matmul__(s, o):
        return np.matmul(s, o)

    def __rmatmul__(s, o):
        return np.matmul(o, s)

    def __pow__(s, k):
        return W(elementwise(lambda x: tor(x) ** k, s.a))

    def __invert__(s):
        return np.invert(s)

    def __neg__(s):
        return np.negative(s)

    def __abs__(s):
        return np.absolute(s)

    def __bool__(s):
        if s.size != 1:
            raise ValueError("The truth value of an array with more than one element is ambiguous.")
        return bool(s.a.reshape(-1)[0])

    def __float__(s):
        if s.size != 1:
            raise TypeError("only length-1 arrays can be converted to Python scalars")
        return float(s.a.reshape(-1)[0])

    def __int__(s):
        return int(s.a.reshape(-1)[0])

    def __index__(s):
        return int(s)

    def __repr__(s):
        return f"SymArray({s.a!r})"


def _u_struct(x):
    if isinstance(x, SymArray):
        return x.a
    if isinstance(x, (list, tuple)):
        return type(x)(_u_struct(y) for y in x)
    if isinstance(x, np.ndarray) and x.dtype.kind in "fb":
        return _lift_arr(x)
    if isinstance(x, SInt):
        return x.__index__()
    return x


STRUCT = {
    np.tile, np.repeat, np.hstack, np.vstack, np.vsplit, np.hsplit, np.split, np.array_split, np.broadcast_to,
    np.expand_dims, np.concatenate, np.append, np.reshape, np.transpose, np.squeeze, np.atleast_1d,
    np.atleast_2d, np.copy, np.swapaxes, np.take, np.stack, np.column_stack, np.ravel, np.moveaxis,
    np.broadcast_arrays, np.flip, np.roll, np.delete, np.insert, np.shape, np.ndim, np.size,
}


# --------------------------------------------------------------------------
# reductions
# --------------------------------------------------------------------------
def _reduce_axis(a, f, axis, empty):
    a = UF(a)
    if not isinstance(a, np.ndarray):
        return a
    if axis is None:
        items = list(a.flat)
        return f(items) if items else empty
    if isinstance(axis, tuple):
        r = a
        for ax in sorted([x % a.ndim for x in axis], reverse=True):
            r = _reduce_axis(r, f, ax, empty)
            r = r.a if isinstance(r, SymArray) else r
        return W(r) if isinstance(r, np.ndarray) else r
    axis = axis % a.ndim
    m = np.moveaxis(a, axis, -1)
    out = np.empty(m.shape[:-1], dtype=object)
    if out.ndim == 0:
        items = list(m)
        return f(items) if items else empty
    for idx in np.ndindex(out.shape):
        items = list(m[idx])
        out[idx] = f(items) if items else empty
    return SymArray(out)


def _sum_items(items):
    acc = items[0]
    if isinstance(acc, SB):
        acc = acc._num()
    for x in items[1:]:
        acc = acc + (x._num() if isinstance(x, SB) else x)
    return acc


def _reduce(ufunc, a, axis=0, **kw):
    if ufunc is np.logical_or or ufunc is np.bitwise_or:
        return _reduce_axis(a, lambda it: SB(b_or(*[_truth(x).t for x in it])), axis, SB(False))
    if ufunc is np.logical_and or ufunc is np.bitwise_and:
        return _reduce_axis(a, lambda it: SB(b_and(*[_truth(x).t for x in it])), axis, SB(True))
    if ufunc is np.add:
        return _reduce_axis(a, _sum_items, axis, SR(Fraction(0)))
    if ufunc is np.maximum:
        return _reduce_axis(a, lambda it: _fold(_max, it), axis, None)
    if ufunc is np.minimum:
        return _reduce_axis(a, lambda it: _fold(_min, it), axis, None)
    if ufunc is np.fmax:
        return _reduce_axis(a, lambda it: _fold(_fmax, it), axis, None)
    if ufunc is np.fmin:
        return _reduce_axis(a, lambda it: _fold(_fmin, it), axis, None)
    raise NotImplementedError(f"reduce of {ufunc.__name__}")


def _fold(f, items):
    acc = tor(items[0])
    for x in items[1:]:
        acc = f(acc, tor(x))
    return acc


@impl(np.sum)
def _sum(a, axis=None, **kw):
    return _reduce_axis(a, _sum_items, axis, SR(Fraction(0)))


@impl(np.mean)
def _mean(a, axis=None, **kw):
    return _reduce_axis(a, lambda it: _sum_items(it) / len(it), axis, SR(Fraction(0), True))


@impl(np.any)
def _any(a, axis=None, **kw):
    return _reduce_axis(a, lambda it: SB(b_or(*[_truth(x).t for x in it])), axis, SB(False))


@impl(np.all)
def _all(a, axis=None, **kw):
    return _reduce_axis(a, lambda it: SB(b_and(*[_truth(x).t for x in it])), axis, SB(True))


@impl(np.max, np.amax)
def _amax(a, axis=None, **kw):
    def f(it):
        return _fold(_max, it)
    r = _reduce_axis(a, f, axis, None)
    if r is None:
        raise ValueError("zero-size array to reduction operation maximum which has no identity")
    return r


@impl(np.min, np.amin)
def _amin(a, axis=None, **kw):
    r = _reduce_axis(a, lambda it: _fold(_min, it), axis, None)
    if r is None:
        raise ValueError("zero-size array to reduction operation minimum which has no identity")
    return r


def _count_items(items):
    terms = []
    n = 0
    for x in items:
        t = _truth(x).t
        if t is True:
            n += 1
        elif t is not False:
            terms.append(z3.If(t, 1, 0))
    if not terms:
        return SInt(n, 0, len(items))
    return SInt(z3.Sum(*terms) + n if len(terms) > 1 else terms[0] + n, 0, len(items))


@impl(np.count_nonzero)
def _cnz(a, axis=None, **kw):
    r = _reduce_axis(a, _count_items, axis, SInt(0))
    return r


@impl(np.cumsum)
def _cumsum(a, axis=None, **kw):
    a = UF(a)
    if axis is None:
        flat = list(a.flat)
        out = np.empty(len(flat), dtype=object)
        acc = None
        for i, x in enumerate(flat):
            acc = x if acc is None else acc + x
            out[i] = acc
        return SymArray(out)
    raise NotImplementedError("cumsum with axis")


@impl(np.dot)
def _dot(a, b, out=None):
    a, b = UF(a), UF(b)
    if not isinstance(a, np.ndarray) or not isinstance(b, np.ndarray) or a.ndim == 0 or b.ndim == 0:
        return W(elementwise(_OPS[np.multiply], a, b))
    if a.shape[-1] != (b.shape[-2] if b.ndim >= 2 else b.shape[0]):
        raise ValueError(f"shapes {a.shape} and {b.shape} not aligned")
    if a.shape[-1] == 0:
        shape = a.shape[:-1] + (b.shape[:-2] + b.shape[-1:] if b.ndim >= 2 else ())
        z = np.empty(shape, dtype=object)
        if z.ndim == 0:
            return SR(Fraction(0))
        z.fill(SR(Fraction(0)))
        return SymArray(z)
    r = np.dot(a, b)
    return W(r) if isinstance(r, np.ndarray) else lift(r)


@impl(np.matmul)
def _matmul(a, b, out=None, **kw):
    a, b = UF(a), UF(b)
    if a.ndim <= 2 and b.ndim <= 2:
        return _dot(a, b)
    r = np.matmul(a, b)
    return W(r)


@impl(np.inner)
def _inner(a, b):
    return _dot(a, np.transpose(UF(b)) if getattr(UF(b), "ndim", 0) > 1 else b)


@impl(np.outer)
def _outer(a, b):
    a, b = UF(a).ravel(), UF(b).ravel()
    out = np.empty((a.size, b.size), dtype=object)
    for i in range(a.size):
        for j in range(b.size):
            out[i, j] = tor(a[i]) * tor(b[j])
    return SymArray(out)


# --------------------------------------------------------------------------
# element-wise functions outside the ufunc protocol
# --------------------------------------------------------------------------
@impl(np.where)
def _where(c, x=None, y=None):
    if x is None and y is None:
        return np.where(np.asarray(c if isinstance(c, SymArray) else SymArray(U(c)), dtype=bool))
    r = elementwise(ite_s, c if not isinstance(c, np.ndarray) or c.dtype == object else c.astype(bool), x, y)
    return W(r) if isinstance(r, np.ndarray) else r


@impl(np.isin)
def _isin(element, test_elements, assume_unique=False, invert=False, **kw):
    tests = [tor(x) for x in np.asarray(U(test_elements), dtype=object).ravel()]

    def f(x):
        x = tor(x)
        r = SB(False)
        for t in tests:
            r = r | (x == t)          # NaN equals nothing, as in NumPy
        return ~r if invert else r

    r = elementwise(f, element)
    return W(r) if isinstance(r, np.ndarray) else r


@impl(np.nan_to_num)
def _n2n(a, copy=True, nan=0.0, posinf=None, neginf=None):
    big = Fraction(np.finfo(np.float64).max)

    def f(x):
        x = tor(x)
        if x.inf:
            v = (frac(posinf) if posinf is not None else big) if x.inf > 0 else (frac(neginf) if neginf is not None else -big)
            return SR(r_ite(x.nan, frac(nan), v))
        return SR(r_ite(x.nan, frac(nan), x.v))

    r = elementwise(f, a)
    if copy is False and isinstance(a, SymArray):
        # in-place variant: NumPy writes into the argument (a view shares its memory with the parent)
        if not a.flags.writeable:
            raise ValueError("assignment destination is read-only")
        a.a[...] = r
        return a
    return W(r) if isinstance(r, np.ndarray) else r


@impl(np.clip)
def _clip(a, a_min=None, a_max=None, out=None, **kw):
    if "min" in kw:
        a_min = kw["min"]
    if "max" in kw:
        a_max = kw["max"]

    def f(x, lo, hi):
        x = tor(x)
        r = x
        if lo is not None:
            r = _max(r, tor(lo))
        if hi is not None:
            r = _min(r, tor(hi))
        return r

    if a_min is None:
        r = elementwise(lambda x, hi: f(x, None, hi), a, a_max)
    elif a_max is None:
        r = elementwise(lambda x, lo: f(x, lo, None), a, a_min)
    else:
        r = elementwise(f, a, a_min, a_max)
    return W(r) if isinstance(r, np.ndarray) else r


@impl(np.allclose)
def _allclose(a, b, rtol=1e-5, atol=1e-8, equal_nan=False):
    r = elementwise(lambda x, y: _isclose1(tor(x), tor(y), rtol, atol, equal_nan), a, b)
    if isinstance(r, np.ndarray):
        return SB(b_and(*[x.t for x in r.flat]))
    return r


@impl(np.isclose)
def _isclose(a, b, rtol=1e-5, atol=1e-8, equal_nan=False):
    r = elementwise(lambda x, y: _isclose1(tor(x), tor(y), rtol, atol, equal_nan), a, b)
    return W(r) if isinstance(r, np.ndarray) else r


def _isclose1(x, y, rtol, atol, equal_nan):
    if x.inf or y.inf:
        return SB(b_and(b_not(x.nan), b_not(y.nan), x.inf == y.inf))
    d = abs(x - y)
    lim = tor(atol) + tor(rtol) * abs(_strip(y))
    ok = (SR(d.v) <= SR(lim.v)).t
    res = b_and(b_not(x.nan), b_not(y.nan), ok)
    if equal_nan:
        res = b_or(res, b_and(x.nan, y.nan))
    return SB(res)


@impl(np.array_equal)
def _array_equal(a, b, equal_nan=False):
    a, b = UF(a), UF(b)
    if getattr(a, "shape", ()) != getattr(b, "shape", ()):
        return False
    r = elementwise(_OPS[np.equal], a, b)
    if isinstance(r, np.ndarray):
        return SB(b_and(*[tob(x).t for x in r.flat]))
    return r


# --------------------------------------------------------------------------
# ordering (forks)
# --------------------------------------------------------------------------
def _less_nanlast(x, y):
    x, y = tor(x), tor(y)
    return SB(b_or(b_and(b_not(x.nan), y.nan), b_and(b_not(x.nan), b_not(y.nan), (_strip(x) < _strip(y)).t)))


def _before(x, y):
    """Must x be placed before y?  NaN last, stable on ties.  NumPy's SIMD argsort is not
    stable, so the pair is recorded: witness models used for validation keep such keys distinct
    (properties over sorted data must be - and are - stated tie-robustly)."""
    x, y = tor(x), tor(y)
    if not (x.concrete and y.concrete):
        c = ctx()
        if not isinstance(x.v, Fraction) or not isinstance(y.v, Fraction):
            d = zr(x.v) - zr(y.v)  # keep sorted keys apart by a margin that survives float rounding
            c.notes.append(("distinct", z3.Or(zb(x.nan), zb(y.nan), d >= z3.Q(1, 1000), d <= z3.Q(-1, 1000))))
    return bool(_less_nanlast(x, y))


@impl(np.argsort)
def _argsort(a, axis=-1, kind=None, **kw):
    a = UF(a)
    if a.ndim != 1:
        raise NotImplementedError("argsort of a non-vector")
    idx: list[int] = []
    for i in range(a.size):  # insertion sort with forking comparisons
        k = len(idx)
        while k > 0 and _before(a[i], a[idx[k - 1]]):
            k -= 1
        idx.insert(k, i)
    return np.array(idx, dtype=np.intp)


@impl(np.sort)
def _sort(a, axis=-1, **kw):
    a = UF(a)
    return SymArray(a[_argsort(a)])


@impl(np.argmin)
def _argmin(a, axis=None, **kw):
    a = UF(a)
    flat = list(a.flat)
    if not flat:
        raise ValueError("attempt to get argmin of an empty sequence")
    if isinstance(flat[0], SB):
        for i, x in enumerate(flat):  # False < True: first False
            if not bool(x):
                return i
        return 0
    best = 0
    for i in range(1, len(flat)):
        xi, xb = tor(flat[i]), tor(flat[best])
        # numpy: NaN wins (first NaN is returned)
        if bool(SB(b_and(b_not(xb.nan), b_or(xi.nan, (_strip(xi) < _strip(xb)).t)))):
            best = i
    return best


@impl(np.argmax)
def _argmax(a, axis=None, **kw):
    a = UF(a)
    flat = list(a.flat)
    if not flat:
        raise ValueError("attempt to get argmax of an empty sequence")
    if isinstance(flat[0], SB):
        for i, x in enumerate(flat):
            if bool(x):
                return i
        return 0
    best = 0
    for i in range(1, len(flat)):
        xi, xb = tor(flat[i]), tor(flat[best])
        if bool(SB(b_and(b_not(xb.nan), b_or(xi.nan, (_strip(xi) > _strip(xb)).t)))):
            best = i
    return best


@impl(np.nonzero)
def _nonzero(a):
    return np.nonzero(np.asarray(a if isinstance(a, SymArray) else SymArray(U(a))))


@impl(np.flatnonzero)
def _flatnonzero(a):
    return np.flatnonzero(np.asarray(a))


@impl(np.ix_)
def _ix(*args):
    return np.ix_(*[np.asarray(a) if isinstance(a, SymArray) else a for a in args])


@impl(np.compress)
def _compress(cond, a, axis=None):
    c = np.asarray(cond, dtype=bool)
    r = np.compress(c, U(a), axis=axis)
    return W(r)


@impl(np.unique)
def _unique(a, **kw):
    return np.unique(np.asarray(a), **kw)


# --------------------------------------------------------------------------
# constructors-like functions reachable through dispatch
# --------------------------------------------------------------------------
@impl(np.zeros_like)
def _zl(a, dtype=None, **kw):
    if dtype is not None and np.dtype(dtype).kind in "biu":
        return np.zeros(np.shape(U(a)), dtype=dtype)
    z = np.empty(U(a).shape, dtype=object)
    z.fill(SR(Fraction(0)))
    return SymArray(z)


@impl(np.ones_like)
def _ol(a, dtype=None, **kw):
    z = np.empty(U(a).shape, dtype=object)
    z.fill(SR(Fraction(1)))
    return SymArray(z)


@impl(np.empty_like)
def _el(a, dtype=None, **kw):
    return _zl(a, dtype)


@impl(np.full_like)
def _fl(a, v, dtype=None, **kw):
    z = np.empty(U(a).shape, dtype=object)
    z.fill(lift(v))
    return SymArray(z)


@impl(np.diag)
def _diag(a, k=0):
    a = U(a)
    if a.ndim == 1:
        n = a.size
        out = np.empty((n, n), dtype=object)
        out.fill(SR(Fraction(0)))
        for i in range(n):
            out[i, i] = a[i]
        return SymArray(out)
    return SymArray(np.diag(a, k))


@impl(np.linalg.svd)
def _svd(m, full_matrices=True, **kw):
    """Not encodable symbolically (NRA `unknown` for n >= 2): the matrix must be concrete."""
    f = np.asarray(m if isinstance(m, SymArray) else SymArray(U(m)), dtype=float)
    u, s, v = np.linalg.svd(f, full_matrices=full_matrices)
    return SymArray(u), SymArray(s), SymArray(v)


@impl(np.linalg.norm)
def _norm(a, ord=None, axis=None, **kw):
    if ord == 1 and axis is None and U(a).ndim == 1:
        return _sum_items([abs(tor(x)) for x in U(a).flat])
    if ord not in (None, 2) or axis is not None:
        raise NotImplementedError("norm variant")
    s = _sum_items([tor(x) * tor(x) for x in U(a).flat])
    return sqrt_sr(s)


@impl(np.array_equiv)
def _aeqv(a, b):
    return _array_equal(a, b)


@impl(np.may_share_memory, np.shares_memory)
def _msm(a, b, **kw):
    return np.may_share_memory(U(a) if is_sym(a) else a, U(b) if is_sym(b) else b)


@impl(np.isscalar)
def _isscalar(x):
    return False


@impl(np.result_type)
def _rt(*a):
    return np.dtype(np.float64)


@impl(np.asarray, np.array, np.asanyarray, np.ascontiguousarray)
def _asarray_dispatch(a, dtype=None, **kw):
    return a if isinstance(a, SymArray) else SymArray(U(a))
