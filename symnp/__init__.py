from .core import *  # noqa: F401,F403
from .core import SB, SF, SInt, SR, Ctx, PathAbort, BoundExceeded, Stats, explore, ctx, tor, tob, lift
from .array import SymArray, U, UF, W, is_sym, ite_s, elementwise
from .proxy import instrument, uninstrument, PROXY
