"""The only run-time patch applied to ropt: the module global ``np`` of every
loaded ``ropt.*`` module is replaced (in the checker's process, never on disk)
by a proxy whose array *constructors* return SymArrays while a symbolic run is
active.  Everything else passes through to NumPy, and when no symbolic run is
active (concrete replay) the proxy is completely transparent.
"""
from __future__ import annotations

import sys
from fractions import Fraction

import numpy as np

from .array import SymArray, U, UF, W, is_sym, _flat, HANDLED
from .core import SB, SF, SInt, SR, Ctx, lift, tor


def _active():
    return Ctx.cur is not None


def _float_dtype(dtype):
    if dtype is None:
        return True
    try:
        return np.dtype(dtype).kind == "f"
    except TypeError:
        return False


def _filled(shape, v):
    a = np.empty(shape, dtype=object)
    a.fill(v)
    return SymArray(a)


class NPProxy:
    """Stands in for the ``numpy`` module inside ropt."""

    def __getattr__(self, k):
        return getattr(np, k)

    # ---- constructors
    def empty(self, shape, dtype=None, **kw):
        if _active() and _float_dtype(dtype):
            return _filled(shape, SR(Fraction(0)))
        return np.empty(shape, dtype=dtype, **kw)

    def zeros(self, shape, dtype=None, **kw):
        if _active() and _float_dtype(dtype):
            return _filled(shape, SR(Fraction(0)))
        return np.zeros(shape, dtype=dtype if dtype is not None else float, **kw)

    def ones(self, shape, dtype=None, **kw):
        if _active() and _float_dtype(dtype):
            return _filled(shape, SR(Fraction(1)))
        return np.ones(shape, dtype=dtype, **kw)

    def full(self, shape, fill_value, dtype=None, **kw):
        if _active() and (is_sym(fill_value) or isinstance(fill_value, float)) and _float_dtype(dtype):
            return _filled(shape, lift(fill_value))
        return np.full(shape, fill_value, dtype=dtype, **kw)

    def _has_sym(self, x):
        if is_sym(x):
            return True
        if isinstance(x, (list, tuple)):
            return any(is_sym(y) for y in _flat(x))
        return False

    def array(self, x, dtype=None, copy=True, ndmin=0, **kw):
        if self._has_sym(x):
            if isinstance(x, SymArray):
                r = x.copy() if copy else x
            elif isinstance(x, (SR, SB, SInt, SF)):
                a = np.empty((), dtype=object)
                a[()] = x
                r = SymArray(a)
            else:
                r = SymArray(U(x))
            while r.ndim < ndmin:
                r = SymArray(r.a[np.newaxis, ...])
            return r
        return np.array(x, dtype=dtype, copy=copy, ndmin=ndmin, **kw)

    def asarray(self, x, dtype=None, **kw):
        if self._has_sym(x):
            return x if isinstance(x, SymArray) else self.array(x)
        return np.asarray(x, dtype=dtype, **kw)

    asanyarray = asarray
    ascontiguousarray = asarray

    def isscalar(self, x):
        if isinstance(x, (SR, SB, SInt, SF)):
            return True
        return np.isscalar(x)

    def ndim(self, x):
        if isinstance(x, (SR, SB, SInt, SF)):
            return 0
        return np.ndim(x)

    def __init__(self):
        for n in _WRAPPED:
            object.__setattr__(self, n, _Wrap(getattr(np, n)))


class _Wrap:
    """np.f(...) where an argument is one of our *scalars* (NumPy would try float());
    attribute access (``np.logical_or.reduce``) falls through to the real function."""

    def __init__(self, f):
        self._f = f

    def __getattr__(self, k):
        return getattr(self._f, k)

    def __call__(self, *a, **kw):
        f = self._f
        if any(isinstance(x, (SR, SB, SInt, SF)) for x in a) and not any(isinstance(x, SymArray) for x in a):
            h = HANDLED.get(f)
            if h is not None:
                return h(*a, **kw)
            from .array import _OPS, elementwise
            r = elementwise(_OPS[f], *a)
            return W(r) if isinstance(r, np.ndarray) else r
        return f(*a, **kw)


_WRAPPED = ("isnan", "isfinite", "isinf", "abs", "absolute", "sqrt", "maximum", "minimum", "where",
            "nan_to_num", "clip", "allclose", "isclose", "sum", "any", "all", "count_nonzero",
            "logical_and", "logical_or", "logical_not", "dot", "matmul", "square", "sign",
            "add", "subtract", "multiply", "divide", "true_divide", "negative", "less", "greater",
            "less_equal", "greater_equal", "equal", "not_equal", "power", "fabs")


PROXY = NPProxy()
_instrumented: dict = {}


def _import_all(prefix):
    import importlib
    import pkgutil
    try:
        pkg = importlib.import_module(prefix)
    except ImportError:
        return
    for m in pkgutil.walk_packages(pkg.__path__, prefix + "."):
        try:
            importlib.import_module(m.name)
        except Exception:  # noqa: BLE001 - optional dependencies
            pass


def instrument(prefix="ropt"):
    """Import every module of the package, then replace ``np`` in each of them."""
    _import_all(prefix)
    n = 0
    for name, mod in list(sys.modules.items()):
        if (name == prefix or name.startswith(prefix + ".")) and getattr(mod, "np", None) is np:
            mod.np = PROXY
            _instrumented[name] = mod
            n += 1
    return n


def uninstrument():
    for name, mod in _instrumented.items():
        if getattr(mod, "np", None) is PROXY:
            mod.np = np
    _instrumented.clear()
