"""symnp core: symbolic scalars and the path explorer.

Scalars
  SR    real with a NaN flag and a *concrete* infinity tag (-1, 0, +1)
        v   : fractions.Fraction (concrete) or z3 ArithRef (Real sort)
        nan : bool or z3 BoolRef
        inf : int in {-1, 0, 1}; operations that would make the tag depend on a
              symbolic condition fork the path instead, so it is always concrete
  SB    truth value: bool or z3 BoolRef; ``bool(SB)`` forks
  SInt  integer: int or z3 ArithRef (Int sort); ``int(SInt)`` forks over feasible values
  SF    IEEE double (z3 Float64 term) - only for code whose subject is rounding

Path exploration is by deterministic re-execution with a decision prefix (as
CrossHair/KLEE do per path): every ``__bool__``/``__index__`` on a symbolic
value asks z3 which outcomes are feasible under the current path condition,
follows one and queues the prefix of the other.
"""
from __future__ import annotations

import itertools
import math
import operator
import time
from fractions import Fraction

import numpy as np
import z3

# --------------------------------------------------------------------------
# term helpers with constant folding (keep formulas small)
# --------------------------------------------------------------------------
_T, _F = z3.BoolVal(True), z3.BoolVal(False)


def is_conc_b(x):
    return isinstance(x, (bool, np.bool_))


def zb(x):
    """bool | BoolRef -> BoolRef"""
    if is_conc_b(x):
        return _T if x else _F
    return x


def b_fold(x):
    if is_conc_b(x):
        return bool(x)
    if z3.is_true(x):
        return True
    if z3.is_false(x):
        return False
    return x


def b_not(a):
    a = b_fold(a)
    if isinstance(a, bool):
        return not a
    return b_fold(z3.simplify(z3.Not(a)))


def b_and(*xs):
    out = []
    for x in xs:
        x = b_fold(x)
        if x is False:
            return False
        if x is True:
            continue
        out.append(x)
    if not out:
        return True
    if len(out) == 1:
        return out[0]
    return z3.And(*out)


def b_or(*xs):
    out = []
    for x in xs:
        x = b_fold(x)
        if x is True:
            return True
        if x is False:
            continue
        out.append(x)
    if not out:
        return False
    if len(out) == 1:
        return out[0]
    return z3.Or(*out)


def b_ite(c, a, b):
    c = b_fold(c)
    if c is True:
        return a
    if c is False:
        return b
    a, b = b_fold(a), b_fold(b)
    if isinstance(a, bool) and isinstance(b, bool):
        if a == b:
            return a
        return c if a else b_not(c)
    return z3.If(c, zb(a), zb(b))


def b_implies(a, b):
    return b_or(b_not(a), b)


def b_eq(a, b):
    a, b = b_fold(a), b_fold(b)
    if isinstance(a, bool) and isinstance(b, bool):
        return a == b
    if isinstance(a, bool):
        return b if a else b_not(b)
    if isinstance(b, bool):
        return a if b else b_not(a)
    return a == b


def is_conc_r(v):
    return isinstance(v, Fraction)


def frac(x) -> Fraction:
    if isinstance(x, Fraction):
        return x
    if isinstance(x, (int, np.integer)):
        return Fraction(int(x))
    return Fraction(float(x))


def zr(v):
    """Fraction | ArithRef -> ArithRef (Real)"""
    if isinstance(v, Fraction):
        return z3.RealVal(v) if v.denominator == 1 else z3.Q(v.numerator, v.denominator)
    return v


def r_fold(v):
    if isinstance(v, Fraction):
        return v
    if z3.is_rational_value(v):
        return Fraction(v.numerator_as_long(), v.denominator_as_long())
    return v


def r_bin(op, a, b):
    if isinstance(a, Fraction) and isinstance(b, Fraction):
        return op(a, b)
    # cheap algebraic folds
    if op is operator.mul:
        if isinstance(a, Fraction):
            if a == 0:
                return Fraction(0)
            if a == 1:
                return b
        if isinstance(b, Fraction):
            if b == 0:
                return Fraction(0)
            if b == 1:
                return a
    elif op is operator.add:
        if isinstance(a, Fraction) and a == 0:
            return b
        if isinstance(b, Fraction) and b == 0:
            return a
    elif op is operator.sub:
        if isinstance(b, Fraction) and b == 0:
            return a
    elif op is operator.truediv:
        if isinstance(b, Fraction) and b == 1:
            return a
        if isinstance(a, Fraction) and a == 0:
            return Fraction(0)
    return op(zr(a), zr(b))


def r_ite(c, a, b):
    c = b_fold(c)
    if c is True:
        return a
    if c is False:
        return b
    if isinstance(a, Fraction) and isinstance(b, Fraction) and a == b:
        return a
    if a is b:
        return a
    return z3.If(c, zr(a), zr(b))


def r_cmp(op, a, b):
    if isinstance(a, Fraction) and isinstance(b, Fraction):
        return bool(op(a, b))
    return b_fold(z3.simplify(op(zr(a), zr(b))))


def is_conc_i(t):
    return isinstance(t, (int, np.integer)) and not isinstance(t, (bool, np.bool_))


def zi(t):
    return z3.IntVal(int(t)) if is_conc_i(t) else t


def i_fold(t):
    if is_conc_i(t):
        return int(t)
    t = z3.simplify(t)
    if z3.is_int_value(t):
        return t.as_long()
    return t


# --------------------------------------------------------------------------
# path context
# --------------------------------------------------------------------------
class PathAbort(BaseException):
    """The current path is abandoned (infeasible assumption / bound hit)."""


class BoundExceeded(Exception):
    pass


class Stats:
    def __init__(self):
        self.paths = 0
        self.decisions = 0
        self.forks = 0
        self.feas_queries = 0
        self.solver_time = 0.0
        self.unknown_feas = 0


class Ctx:
    """State of one symbolic run."""

    cur: "Ctx | None" = None

    def __init__(self, prefix, todo, stats, base=(), timeout_ms=10000):
        self.decisions = list(prefix)
        self.pos = 0
        self.pc: list = []
        self.todo = todo
        self.stats = stats
        self.timeout_ms = timeout_ms
        self.base = list(base)
        self.cache: dict = {}
        self.model = None
        self.axioms: list = []
        self.nfresh = 0
        self.notes: list = []
        self.over_approx = False

    # ---- solver access
    def _check(self, cond):
        """Is `cond` satisfiable together with the path condition?  Decided on the cone of
        influence of `cond` only: the remaining conjuncts share no symbol with it and are
        satisfiable by the invariant that the path condition is, so the answer is exact."""
        from .solve import cone_of_influence  # local import (cycle)
        t = time.time()
        cone = cone_of_influence(self.base + self.pc + self.axioms, cond)
        s = z3.Solver()
        s.set("timeout", min(self.timeout_ms, 5000))
        for c in cone:
            s.add(c)
        s.add(cond)
        r = s.check()
        self.stats.solver_time += time.time() - t
        self.stats.feas_queries += 1
        return r

    def _model_says(self, cond):
        return None

    def add(self, lit):
        self.pc.append(lit)

    def axiom(self, lit):
        """A definitional fact (e.g. y*y == x for y = sqrt(x)); part of the PC."""
        self.axioms.append(lit)

    def fresh(self, name, sort="real"):
        self.nfresh += 1
        n = f"{name}!{self.nfresh}"
        return z3.Real(n) if sort == "real" else (z3.Int(n) if sort == "int" else z3.Bool(n))

    def assume(self, cond):
        cond = b_fold(cond.t if isinstance(cond, SB) else cond)
        if cond is True:
            return
        if cond is False:
            raise PathAbort("assumption false")
        if self._check(cond) == z3.unsat:
            raise PathAbort("assumption infeasible")
        self.add(cond)
        self.model = None

    def branch(self, cond) -> bool:
        cond = b_fold(cond)
        if isinstance(cond, bool):
            return cond
        cond = b_fold(z3.simplify(cond))
        if isinstance(cond, bool):
            return cond
        key = cond.get_id()
        if key in self.cache:
            return self.cache[key]
        if self.pos < len(self.decisions):
            d = self.decisions[self.pos]
        else:
            ncond = z3.Not(cond)
            ms = self._model_says(cond)
            t_feas = True if ms is True else None
            f_feas = True if ms is False else None
            if t_feas is None:
                r = self._check(cond)
                t_feas = r != z3.unsat
                if r == z3.unknown:
                    self.stats.unknown_feas += 1
                    self.over_approx = True
                elif r == z3.sat and ms is None:
                    ms = True
            if f_feas is None:
                if not t_feas:
                    f_feas = True  # the path condition itself is satisfiable
                else:
                    r = self._check(ncond)
                    f_feas = r != z3.unsat
                    if r == z3.unknown:
                        self.stats.unknown_feas += 1
                        self.over_approx = True
                    elif r == z3.sat and ms is None:
                        ms = False
            if t_feas and f_feas:
                # follow the side the cached model satisfies (keeps the model valid)
                d = ms is not False
                self.todo.append(self.decisions + [not d])
                self.stats.forks += 1
            elif t_feas:
                d = True
            elif f_feas:
                d = False
            else:
                raise PathAbort("path condition infeasible")
            self.decisions.append(d)
        self.pos += 1
        self.stats.decisions += 1
        lit = cond if d else z3.Not(cond)
        self.add(lit)
        if self._model_says(lit) is not True:
            self.model = None
        self.cache[key] = d
        return d

    def choose_int(self, t, lo, hi):
        """Concretise a symbolic integer in [lo, hi] by forking."""
        t = i_fold(t)
        if isinstance(t, int):
            return t
        order = list(range(lo, hi + 1))  # deterministic: re-execution must meet the same conditions
        for v in order[:-1]:
            if self.branch(t == v):
                return v
        v = order[-1]
        if self.branch(t == v):
            return v
        raise PathAbort(f"symbolic integer outside [{lo},{hi}]")


def ctx() -> Ctx:
    c = Ctx.cur
    if c is None:
        raise RuntimeError("symbolic value forced outside a symbolic run")
    return c


class PathResult:
    __slots__ = ("pc", "axioms", "kind", "value", "decisions", "notes")

    def __init__(self, pc, axioms, kind, value, decisions, notes):
        self.pc, self.axioms, self.kind, self.value = pc, axioms, kind, value
        self.decisions, self.notes = decisions, notes


def explore(fn, *, base=(), max_paths=20000, timeout_ms=10000, stats=None, deadline=None):
    """Run fn() once per feasible path.  Returns list[PathResult]."""
    stats = stats or Stats()
    todo = [[]]
    results = []
    while todo:
        if len(results) >= max_paths:
            raise BoundExceeded(f"more than {max_paths} paths")
        if deadline is not None and time.time() > deadline:
            raise BoundExceeded("time budget exhausted during path exploration")
        c = Ctx(todo.pop(), todo, stats, base=base, timeout_ms=timeout_ms)
        Ctx.cur = c
        try:
            out = ("ok", fn())
        except PathAbort:
            Ctx.cur = None
            continue
        except (KeyboardInterrupt, SystemExit, MemoryError):
            raise
        except BaseException as e:  # noqa: BLE001 - an escaped exception is an outcome (also one that is
            out = ("exc", e)        # not an Exception: the code under test may define such classes)
        finally:
            Ctx.cur = None
        stats.paths += 1
        if c.over_approx:
            c.notes.append("over-approximated")
        results.append(PathResult(c.pc, c.axioms, out[0], out[1], c.decisions, c.notes))
    return results



class _NpScalarAPI:
    """The bits of the NumPy scalar interface that array code relies on."""
    __slots__ = ()
    shape = ()
    ndim = 0
    size = 1

    def _as0d(self):
        from .array import SymArray
        a = np.empty((), dtype=object)
        a[()] = self
        return SymArray(a)

    def __getitem__(self, k):
        r = self._as0d()[k]
        return r

    def copy(self):
        return self

    @property
    def T(self):
        return self

    def item(self):
        return self

    def sum(self, *a, **k):
        return self

    def reshape(self, *s):
        return self._as0d().reshape(*s)

    def flatten(self):
        return self._as0d().reshape(1)

    def transpose(self, *a):
        return self

    def setflags(self, **kw):
        pass

    def astype(self, dt):
        return self


# --------------------------------------------------------------------------
# SB
# --------------------------------------------------------------------------
class SB(_NpScalarAPI):
    __slots__ = ("t",)
    __array_priority__ = 2000

    def __init__(self, t):
        if isinstance(t, SB):
            t = t.t
        self.t = b_fold(t)

    def __bool__(self):
        if isinstance(self.t, bool):
            return self.t
        return ctx().branch(self.t)

    def __invert__(self):
        return SB(b_not(self.t))

    def __and__(self, o):
        return SB(b_and(self.t, tob(o).t))

    def __or__(self, o):
        return SB(b_or(self.t, tob(o).t))

    def __xor__(self, o):
        return SB(b_not(b_eq(self.t, tob(o).t)))

    __rand__, __ror__, __rxor__ = __and__, __or__, __xor__

    def __eq__(self, o):
        if isinstance(o, (SB, bool, np.bool_)):
            return SB(b_eq(self.t, tob(o).t))
        return NotImplemented

    def __ne__(self, o):
        if isinstance(o, (SB, bool, np.bool_)):
            return SB(b_not(b_eq(self.t, tob(o).t)))
        return NotImplemented

    __hash__ = None

    def _num(self):
        return SR(r_ite(self.t, Fraction(1), Fraction(0)))

    def __add__(self, o):
        return self._num() + o

    __radd__ = __add__

    def __mul__(self, o):
        return self._num() * o

    __rmul__ = __mul__

    def __repr__(self):
        return f"SB({self.t})"

    @property
    def concrete(self):
        return isinstance(self.t, bool)


def tob(x) -> SB:
    if isinstance(x, SB):
        return x
    if isinstance(x, (bool, np.bool_)):
        return SB(bool(x))
    if isinstance(x, z3.BoolRef):
        return SB(x)
    raise TypeError(f"not a truth value: {type(x).__name__}")


# --------------------------------------------------------------------------
# SR
# --------------------------------------------------------------------------
def _abs_r(v):
    if isinstance(v, Fraction):
        return abs(v)
    return z3.If(v < 0, -v, v)


def _sign_conc(ctxt, v):
    """Concrete sign (-1, 0, 1) of a finite real term, forking when symbolic."""
    if isinstance(v, Fraction):
        return (v > 0) - (v < 0)
    if ctxt.branch(v > 0):
        return 1
    if ctxt.branch(v < 0):
        return -1
    return 0


class SR(_NpScalarAPI):
    __slots__ = ("v", "nan", "inf")
    __array_priority__ = 2000

    def __init__(self, v, nan=False, inf=0):
        if isinstance(v, (int, float, np.integer, np.floating)) and not isinstance(v, Fraction):
            v = frac(v)
        self.v = v if isinstance(v, Fraction) else r_fold(v)
        self.nan = b_fold(nan)
        self.inf = inf

    # ---- classification
    @property
    def concrete(self):
        return isinstance(self.v, Fraction) and isinstance(self.nan, bool)

    def to_float(self):
        if self.nan is True:
            return float("nan")
        if not isinstance(self.nan, bool):
            raise TypeError("symbolic NaN flag")
        if self.inf:
            return math.inf * self.inf
        if not isinstance(self.v, Fraction):
            raise TypeError("symbolic value forced to float")
        return float(self.v)

    # ---- arithmetic
    def __neg__(self):
        return SR(-self.v if isinstance(self.v, Fraction) else -self.v, self.nan, -self.inf)

    def __pos__(self):
        return self

    def __abs__(self):
        return SR(_abs_r(self.v), self.nan, abs(self.inf))

    def __add__(self, o):
        o = tor(o)
        if o is NotImplemented:
            return NotImplemented
        nan = b_or(self.nan, o.nan)
        if self.inf or o.inf:
            if self.inf and o.inf and self.inf != o.inf:
                return SR(Fraction(0), True)
            return SR(Fraction(0), nan, self.inf or o.inf)
        return SR(r_bin(operator.add, self.v, o.v), nan)

    __radd__ = __add__

    def __sub__(self, o):
        o = tor(o)
        if o is NotImplemented:
            return NotImplemented
        return self + (-o)

    def __rsub__(self, o):
        return tor(o) - self

    def __mul__(self, o):
        o = tor(o)
        if o is NotImplemented:
            return NotImplemented
        nan = b_or(self.nan, o.nan)
        if self.inf or o.inf:
            if nan is True:
                return SR(Fraction(0), True)
            c = ctx() if not (self.concrete and o.concrete) else None
            sa = self.inf or _sign_conc(c, self.v)
            sb = o.inf or _sign_conc(c, o.v)
            if sa == 0 or sb == 0:
                return SR(Fraction(0), True)
            return SR(Fraction(0), nan, sa * sb)
        return SR(r_bin(operator.mul, self.v, o.v), nan)

    __rmul__ = __mul__

    def __truediv__(self, o):
        o = tor(o)
        if o is NotImplemented:
            return NotImplemented
        nan = b_or(self.nan, o.nan)
        if nan is True:
            return SR(Fraction(0), True)
        if self.inf and o.inf:
            return SR(Fraction(0), True)
        if o.inf:
            return SR(Fraction(0), nan)
        # finite denominator: is it zero?
        if isinstance(o.v, Fraction):
            dz = o.v == 0
        else:
            # division by a symbolic value: fork on zero unless the flag says NaN anyway
            if Ctx.cur is None:
                # oracle context (outside a symbolic run): plain real division; the
                # oracle guards the denominator with an explicit premise
                if self.inf:
                    raise RuntimeError("oracle division of an infinity by a symbol")
                return SR(r_bin(operator.truediv, self.v, o.v), nan)
            dz = ctx().branch(b_and(b_not(o.nan), zr(o.v) == 0))
        if dz:
            if self.inf:
                return SR(Fraction(0), nan, self.inf)
            c = None if isinstance(self.v, Fraction) else ctx()
            s = _sign_conc(c, self.v)
            if s == 0:
                return SR(Fraction(0), True)
            return SR(Fraction(0), nan, s)
        if self.inf:
            c = None if isinstance(o.v, Fraction) else ctx()
            return SR(Fraction(0), nan, self.inf * _sign_conc(c, o.v))
        return SR(r_bin(operator.truediv, self.v, o.v), nan)

    def __rtruediv__(self, o):
        return tor(o) / self

    def __mod__(self, o):
        """Python's float %: x - y*floor(x/y) (sign of the divisor)"""
        o = tor(o)
        if o is NotImplemented:
            return NotImplemented
        if self.concrete and o.concrete and not self.inf and not o.inf and not self.nan and not o.nan and o.v != 0:
            q = self.v / o.v
            fl = q.numerator // q.denominator
            return SR(self.v - o.v * fl)
        if self.inf or o.inf:
            raise NotImplementedError("% with an infinity")
        q = zr(self.v) / zr(o.v)
        return SR(zr(self.v) - zr(o.v) * z3.ToReal(z3.ToInt(q)), b_or(self.nan, o.nan, zr(o.v) == 0))

    def __rmod__(self, o):
        return tor(o) % self

    def __floordiv__(self, o):
        o = tor(o)
        if o is NotImplemented:
            return NotImplemented
        return SR(z3.ToReal(z3.ToInt(zr(self.v) / zr(o.v))), b_or(self.nan, o.nan, zr(o.v) == 0))

    def __pow__(self, k):
        if isinstance(k, SR) and k.concrete:
            k = k.to_float()
        if k == 2:
            return self * self
        if k == 1:
            return self
        if k == 0.5:
            return sqrt_sr(self)
        raise NotImplementedError(f"power {k}")

    # ---- comparisons (IEEE: anything with NaN is False, != is True)
    def _cmp(self, o, op):
        o = tor(o)
        if o is NotImplemented:
            return NotImplemented
        ok = b_and(b_not(self.nan), b_not(o.nan))
        if ok is False:
            return SB(False)
        if self.inf or o.inf:
            a = self.inf * 2
            b = o.inf * 2
            # finite vs infinite: the finite side compares as 0 against +-2
            if self.inf and o.inf:
                return SB(b_and(ok, bool(op(a, b))))
            return SB(b_and(ok, bool(op(a, b))))
        return SB(b_and(ok, r_cmp(op, self.v, o.v)))

    def __lt__(self, o):
        return self._cmp(o, operator.lt)

    def __le__(self, o):
        return self._cmp(o, operator.le)

    def __gt__(self, o):
        return self._cmp(o, operator.gt)

    def __ge__(self, o):
        return self._cmp(o, operator.ge)

    def __eq__(self, o):
        return self._cmp(o, operator.eq)

    def __ne__(self, o):
        r = self._cmp(o, operator.eq)
        if r is NotImplemented:
            return r
        return ~r

    __hash__ = None

    # ---- forcing
    def __float__(self):
        if self.concrete:
            return self.to_float()
        raise TypeError("float() of a symbolic real (engine: unsupported concretisation)")

    def __int__(self):
        """int(x): truncation toward zero; forks over the feasible integer values."""
        if self.concrete:
            return int(self.to_float()) if not self.inf else int(self.to_float())
        c = ctx()
        if c.branch(zb(self.nan)):
            raise ValueError("cannot convert float NaN to integer")
        if self.inf:
            raise OverflowError("cannot convert float infinity to integer")
        k = z3.ToInt(zr(self.v))  # floor
        # truncation toward zero
        t = z3.If(zr(self.v) >= 0, k, z3.If(z3.ToReal(k) == zr(self.v), k, k + 1))
        return c.choose_int(t, -INT_RANGE, INT_RANGE)

    def __bool__(self):
        return bool(self != 0)

    def __repr__(self):
        if self.inf:
            return f"SR({'+' if self.inf > 0 else '-'}inf, nan={self.nan})"
        return f"SR({self.v}, nan={self.nan})"

    def __round__(self, n=None):
        raise TypeError("round() of symbolic real")


INT_RANGE = 64
NAN = None  # set below


def tor(x):
    """number -> SR"""
    if isinstance(x, SR):
        return x
    if isinstance(x, SB):
        return x._num()
    if isinstance(x, SInt):
        return x._real()
    if isinstance(x, (bool, np.bool_)):
        return SR(Fraction(int(x)))
    if isinstance(x, (int, np.integer, Fraction)):
        return SR(Fraction(x))
    if isinstance(x, (float, np.floating)):
        x = float(x)
        if math.isnan(x):
            return SR(Fraction(0), True)
        if math.isinf(x):
            return SR(Fraction(0), False, 1 if x > 0 else -1)
        return SR(Fraction(x))
    if isinstance(x, np.ndarray) and x.ndim == 0:
        return tor(x[()])
    return NotImplemented


def lift(x):
    """Any scalar that may sit in an object array -> SR | SB | SInt | SF | other (unchanged)"""
    if isinstance(x, (SR, SB, SInt, SF)):
        return x
    if isinstance(x, (bool, np.bool_)):
        return SB(bool(x))
    if isinstance(x, (float, np.floating, Fraction)):
        return tor(x)
    if isinstance(x, (int, np.integer)):
        return tor(x)
    return x


def sqrt_sr(x: SR) -> SR:
    if x.concrete and not x.inf:
        if x.nan:
            return x
        if x.v < 0:
            return SR(Fraction(0), True)
        r = Fraction(math.isqrt(x.v.numerator * x.v.denominator), x.v.denominator)
        if r * r == x.v:
            return SR(r)
    if x.inf:
        return SR(Fraction(0), True) if x.inf < 0 else x
    c = ctx()
    xv = z3.simplify(zr(x.v))
    memo = c.cache.setdefault("sqrt", {})
    if xv.get_id() in memo:
        return SR(memo[xv.get_id()], b_or(x.nan, xv < 0))
    y = c.fresh("sqrt")
    memo[xv.get_id()] = y
    c.axiom(z3.Implies(xv >= 0, z3.And(y >= 0, y * y == xv)))
    c.axiom(z3.Implies(xv < 0, y == 0))
    return SR(y, b_or(x.nan, xv < 0))


# --------------------------------------------------------------------------
# SInt
# --------------------------------------------------------------------------
class SInt:
    __slots__ = ("t", "lo", "hi")
    __array_priority__ = 2000

    def __init__(self, t, lo=0, hi=INT_RANGE):
        self.t = i_fold(t.t if isinstance(t, SInt) else t)
        self.lo, self.hi = lo, hi

    @property
    def concrete(self):
        return isinstance(self.t, int)

    def __index__(self):
        if isinstance(self.t, int):
            return self.t
        return ctx().choose_int(self.t, self.lo, self.hi)

    __int__ = __index__

    def __float__(self):
        return float(self.__index__())

    def _real(self):
        if isinstance(self.t, int):
            return SR(Fraction(self.t))
        return SR(z3.ToReal(self.t))

    def _c(self, o, f):
        if isinstance(o, SInt):
            o = o.t
        if isinstance(o, (SR, float, np.floating, Fraction)):
            return f(self._real(), o)
        if isinstance(self.t, int) and is_conc_i(o):
            return SB(bool(f(self.t, int(o))))
        return SB(f(zi(self.t), zi(o)))

    def __lt__(s, o):
        return s._c(o, operator.lt)

    def __le__(s, o):
        return s._c(o, operator.le)

    def __gt__(s, o):
        return s._c(o, operator.gt)

    def __ge__(s, o):
        return s._c(o, operator.ge)

    def __eq__(s, o):
        return s._c(o, operator.eq)

    def __ne__(s, o):
        return ~s._c(o, operator.eq)

    __hash__ = None

    def _a(self, o, f, rev=False):
        if isinstance(o, SInt):
            o = o.t
        if isinstance(o, (SR, float, np.floating, Fraction)):
            return f(tor(o), self._real()) if rev else f(self._real(), o)
        if not (is_conc_i(o) or isinstance(o, z3.ArithRef)):
            return NotImplemented
        a, b = (o, self.t) if rev else (self.t, o)
        if is_conc_i(a) and is_conc_i(b):
            return SInt(f(int(a), int(b)), -INT_RANGE, INT_RANGE)
        return SInt(f(zi(a), zi(b)), -INT_RANGE, INT_RANGE)

    def __add__(s, o):
        return s._a(o, operator.add)

    def __radd__(s, o):
        return s._a(o, operator.add, True)

    def __sub__(s, o):
        return s._a(o, operator.sub)

    def __rsub__(s, o):
        return s._a(o, operator.sub, True)

    def __mul__(s, o):
        return s._a(o, operator.mul)

    def __rmul__(s, o):
        return s._a(o, operator.mul, True)

    def __truediv__(s, o):
        return s._real() / o

    def __rtruediv__(s, o):
        return tor(o) / s._real()

    def __neg__(s):
        return SInt(-s.t if isinstance(s.t, int) else -s.t, -INT_RANGE, INT_RANGE)

    def __bool__(s):
        return bool(s != 0)

    def __repr__(s):
        return f"SInt({s.t})"


# --------------------------------------------------------------------------
# SF: IEEE double terms (only what rounding-sensitive code needs)
# --------------------------------------------------------------------------
_RNE = z3.RNE()
_F64 = z3.Float64()


def fpv(x):
    return z3.FPVal(float(x), _F64)


class SF:
    __slots__ = ("t",)
    __array_priority__ = 2000

    def __init__(self, t):
        self.t = t if isinstance(t, z3.FPRef) else fpv(t)

    @staticmethod
    def _t(o):
        if isinstance(o, SF):
            return o.t
        if isinstance(o, (int, float, np.integer, np.floating)):
            return fpv(float(o))
        if isinstance(o, SR) and o.concrete:
            return fpv(o.to_float())
        raise TypeError(f"SF op with {type(o).__name__}")

    def __add__(s, o):
        return SF(z3.fpAdd(_RNE, s.t, SF._t(o)))

    __radd__ = __add__

    def __sub__(s, o):
        return SF(z3.fpSub(_RNE, s.t, SF._t(o)))

    def __rsub__(s, o):
        return SF(z3.fpSub(_RNE, SF._t(o), s.t))

    def __mul__(s, o):
        return SF(z3.fpMul(_RNE, s.t, SF._t(o)))

    __rmul__ = __mul__

    def __truediv__(s, o):
        return SF(z3.fpDiv(_RNE, s.t, SF._t(o)))

    def __rtruediv__(s, o):
        return SF(z3.fpDiv(_RNE, SF._t(o), s.t))

    def __neg__(s):
        return SF(z3.fpNeg(s.t))

    def __mod__(s, o):
        """Python's float % for a concrete positive divisor y: fmod is exact, x % y = x - k*y with
        k = floor(x/y).  The path forks over k (fpRem bit-blasts too slowly); the comparisons and the
        subtraction are exact in the reals and the result is a double by the fmod theorem."""
        if isinstance(o, SF):
            raise NotImplementedError("% by a symbolic double")
        y = Fraction(float(o))
        if y <= 0:
            raise NotImplementedError("% by a non-positive value")
        c = ctx()
        yf = float(o)

        def ceil_double(fr):
            """smallest double >= the rational fr"""
            d = float(fr)
            if Fraction(d) < fr:
                d = math.nextafter(d, math.inf)
            return d

        for k in range(0, SF_INT_MAX + 2):
            lo, hi = ceil_double(k * y), ceil_double((k + 1) * y)
            if c.branch(z3.And(z3.fpGEQ(s.t, fpv(lo)), z3.fpLT(s.t, fpv(hi)))):
                # x - k*y is exactly representable (fmod theorem): one fused operation, no rounding error
                return SF(z3.fpFMA(_RNE, fpv(-float(k)), fpv(yf), s.t))
        raise PathAbort("SF modulo quotient outside range")

    def __lt__(s, o):
        return SB(z3.fpLT(s.t, SF._t(o)))

    def __le__(s, o):
        return SB(z3.fpLEQ(s.t, SF._t(o)))

    def __gt__(s, o):
        return SB(z3.fpGT(s.t, SF._t(o)))

    def __ge__(s, o):
        return SB(z3.fpGEQ(s.t, SF._t(o)))

    def __eq__(s, o):
        return SB(z3.fpEQ(s.t, SF._t(o)))

    __hash__ = None

    def __int__(s):
        """int(double): round toward zero; forks over feasible integers in [0, INT_RANGE]."""
        c = ctx()
        r = z3.fpRoundToIntegral(z3.RTZ(), s.t)
        for k in range(0, SF_INT_MAX + 1):
            if c.branch(z3.fpEQ(r, fpv(float(k)))):
                return k
        raise PathAbort("SF integer outside range")

    def __float__(s):
        raise TypeError("float() of symbolic double")

    def __repr__(s):
        return f"SF({s.t})"


SF_INT_MAX = 16
