"""Harness layer: symbolic/concrete environments, obligations, replay, evidence.

A *case* is one enumerated configuration structure.  It provides

    inputs(env)          declare symbolic inputs and assumptions (called once per mode)
    run(env, inp)        call the real ropt code (re-executed once per path)
    props(env, inp, oc)  the property as named truth values over inputs and outcome

The same three functions run in two modes: ``sym`` (inputs are z3 terms, the
code runs on SymArrays, each property becomes a solver obligation) and ``conc``
(inputs are the floats of a solver model, the code runs on real NumPy with the
proxy inactive, each property is evaluated exactly on the float results).  The
concrete mode is what replays counterexamples and validates explored paths.
"""
from __future__ import annotations

import fnmatch
import hashlib
import json
import math
import multiprocessing as mp
import os
import sys
import time
import traceback
from fractions import Fraction

import numpy as np
import z3

from . import solve
from .array import SymArray, U, UF, elementwise, is_sym
from .core import (
    SB, SF, SInt, SR, BoundExceeded, Ctx, PathAbort, Stats, b_and, b_fold, b_implies, b_not, b_or, explore,
    frac, lift, tob, tor, zb, zr,
)

REPO = os.environ.get("VERIF_REPO", "/repo")
VERIF = os.path.dirname(os.path.dirname(os.path.abspath(__file__)))
TOL = Fraction(1, 10**6)


# --------------------------------------------------------------------------
# oracle algebra (works on SR/SB in both modes)
# --------------------------------------------------------------------------
def vals(x):
    """Anything array-like or scalar -> object ndarray (or scalar) of SR/SB."""
    if isinstance(x, SymArray):
        return x.a
    if isinstance(x, (SR, SB, SInt, SF)):
        return x
    if x is None:
        return None
    a = np.asarray(x)
    if a.ndim == 0:
        return lift(a[()])
    return UF(a)


def And(*xs):
    return SB(b_and(*[tob(x).t for x in xs]))


def Or(*xs):
    return SB(b_or(*[tob(x).t for x in xs]))


def Not(x):
    return SB(b_not(tob(x).t))


def Implies(a, b):
    return SB(b_implies(tob(a).t, tob(b).t))


def Iff(a, b):
    a, b = tob(a), tob(b)
    return a == b


def isnan(x):
    return SB(tor(x).nan)


def finite(x):
    x = tor(x)
    return SB(b_and(b_not(x.nan), x.inf == 0))


def close(a, b, tol=TOL):
    """a and b are both non-NaN and |a-b| <= tol*(1+|b|)   (infinite: same infinity)"""
    a, b = tor(a), tor(b)
    if a.inf or b.inf:
        return SB(b_and(b_not(a.nan), b_not(b.nan), a.inf == b.inf))
    d = a - b
    lim = tor(tol) * (1 + abs(SR(b.v)))
    return SB(b_and(b_not(a.nan), b_not(b.nan), (abs(SR(d.v)) <= lim).t))


def same(a, b, tol=TOL):
    """both NaN, or close"""
    a, b = tor(a), tor(b)
    return Or(And(isnan(a), isnan(b)), close(a, b, tol))


def exact(a, b):
    a, b = tor(a), tor(b)
    return Or(And(isnan(a), isnan(b)), And(Not(isnan(a)), Not(isnan(b)), SR(a.v, False, a.inf) == SR(b.v, False, b.inf)))


def all_of(it):
    return And(*list(it))


def ite(c, a, b):
    from .array import ite_s
    return ite_s(tob(c), a, b)


def ssum(items):
    acc = SR(Fraction(0))
    for x in items:
        acc = acc + x
    return acc


# --------------------------------------------------------------------------
# environments
# --------------------------------------------------------------------------
class Env:
    def __init__(self, mode, values=None):
        assert mode in ("sym", "conc")
        self.mode = mode
        self.values = values if values is not None else {}
        self.assumptions: list = []
        self.assume_failed: list = []
        self.decl: dict = {}

    @property
    def sym(self):
        return self.mode == "sym"

    # ---- scalars
    def real(self, name, lo=None, hi=None):
        if self.sym:
            v = z3.Real(name)
            self.decl[name] = v
            if lo is not None:
                self.assumptions.append(v >= zr(frac(lo)))
            if hi is not None:
                self.assumptions.append(v <= zr(frac(hi)))
            return SR(v)
        x = self.values.get(name, Fraction(0))
        return SR(Fraction(float(x)))  # the nearest double is what the code will see

    def flag(self, name):
        if self.sym:
            v = z3.Bool(name)
            self.decl[name] = v
            return SB(v)
        return SB(bool(self.values.get(name, False)))

    def integer(self, name, lo, hi):
        if self.sym:
            v = z3.Int(name)
            self.decl[name] = v
            self.assumptions.append(z3.And(v >= lo, v <= hi))
            return SInt(v, lo, hi)
        return SInt(int(self.values.get(name, lo)), lo, hi)

    def string(self, name, maxlen):
        """bounded symbolic printable-ASCII string (sym) | the model's Python str (conc)"""
        from .strings import SymStr
        if self.sym:
            st = SymStr.fresh(name, maxlen)
            for c in st.chars:
                self.decl[str(c)] = c
            self.decl[str(st.n)] = st.n
            self.assumptions.extend(st.constraints())
            return st
        n = int(self.values.get(f"{name}_len", 0))
        return "".join(chr(int(self.values.get(f"{name}_c{i}", 97))) for i in range(n))

    def double(self, name):
        if self.sym:
            v = z3.FP(name, z3.Float64())
            self.decl[name] = v
            return SF(v)
        return float(self.values.get(name, 0.0))

    # ---- arrays of fresh symbols (object ndarrays, the oracle's view)
    def reals(self, name, shape, lo=None, hi=None, nan=False):
        shape = (shape,) if isinstance(shape, int) else tuple(shape)
        a = np.empty(shape, dtype=object)
        for idx in np.ndindex(shape):
            n = name + "_" + "_".join(map(str, idx)) if idx else name
            x = self.real(n, lo, hi)
            if nan:
                x = SR(x.v, self.flag("nan_" + n).t)
            a[idx] = x
        return a

    def flags(self, name, shape):
        shape = (shape,) if isinstance(shape, int) else tuple(shape)
        a = np.empty(shape, dtype=object)
        for idx in np.ndindex(shape):
            a[idx] = self.flag(name + "_" + "_".join(map(str, idx)))
        return a

    def assume(self, c):
        c = tob(c)
        if self.sym:
            if c.t is not True:
                self.assumptions.append(zb(c.t))
        else:
            if c.t is not True:
                self.assume_failed.append(str(c))

    # ---- handing values to the code under test
    def arr(self, a, writeable=True):
        """object ndarray of SR/SB -> SymArray (sym) | float/bool ndarray (conc); always a fresh copy"""
        if isinstance(a, SymArray):
            a = a.a
        a = np.asarray(a, dtype=object)
        if self.sym:
            return SymArray(a.copy(), writeable)
        out = to_numpy(a)
        out.setflags(write=writeable)
        return out

    def const(self, a, writeable=True):
        """a concrete ndarray, wrapped at the boundary in symbolic mode (a plain ndarray's
        methods - .dot, fancy indexing by a symbolic mask - cannot be intercepted)"""
        a = np.array(a)
        if self.sym and a.dtype.kind in "fb":
            return SymArray(a, writeable)
        a.setflags(write=writeable)
        return a

    def num(self, x):
        """scalar SR/SInt/SB -> itself (sym) | python number (conc)"""
        if self.sym:
            return x
        if isinstance(x, SB):
            return bool(x.t)
        if isinstance(x, SInt):
            return int(x.t)
        if isinstance(x, SR):
            return x.to_float()
        return x


def to_numpy(a):
    a = np.asarray(a, dtype=object)
    first = next(iter(a.flat), None)
    if isinstance(first, SB):
        out = np.empty(a.shape, dtype=bool)
        for idx in np.ndindex(a.shape):
            out[idx] = bool(a[idx].t)
        return out
    if isinstance(first, SInt):
        out = np.empty(a.shape, dtype=np.int64)
        for idx in np.ndindex(a.shape):
            out[idx] = int(a[idx].t)
        return out
    out = np.empty(a.shape, dtype=np.float64)
    for idx in np.ndindex(a.shape):
        out[idx] = tor(a[idx]).to_float()
    return out


class Outcome:
    def __init__(self, kind, value):
        self.kind, self.value = kind, value

    @property
    def ok(self):
        return self.kind == "ok"

    @property
    def exc(self):
        return self.value if self.kind == "exc" else None

    def describe(self):
        if self.kind == "exc":
            return f"raised {type(self.value).__name__}: {str(self.value)[:120]}"
        return "returned"


class Case:
    """Base class; subclasses set ``id`` (unique) and ``family`` (known-finding class)."""

    id = "?"
    family = "?"
    max_paths = 20000
    expect_sat: tuple = ()  # names of canary properties that must be refutable
    must_differ: tuple = ()  # canaries whose refutability is itself part of the property ("... changes the result")

    def inputs(self, env):
        raise NotImplementedError

    def run(self, env, inp):
        raise NotImplementedError

    def props(self, env, inp, oc):
        raise NotImplementedError

    def observe(self, env, inp, oc):
        """Optional: dict name -> array of outputs for engine validation."""
        return {}

    def describe(self):
        return self.id


# --------------------------------------------------------------------------
# model -> concrete values
# --------------------------------------------------------------------------
def model_values(model, decl):
    out = {}
    for name, v in decl.items():
        try:
            out[name] = solve.mval(model, v)
        except Exception:  # noqa: BLE001
            out[name] = 0
    return out


def jsonable(x):
    if isinstance(x, Fraction):
        return float(x)
    if isinstance(x, (np.floating,)):
        return float(x)
    if isinstance(x, (np.integer,)):
        return int(x)
    if isinstance(x, (np.bool_,)):
        return bool(x)
    if isinstance(x, float) and (math.isnan(x) or math.isinf(x)):
        return repr(x)
    if isinstance(x, dict):
        return {str(k): jsonable(v) for k, v in x.items()}
    if isinstance(x, (list, tuple)):
        return [jsonable(v) for v in x]
    if isinstance(x, np.ndarray):
        return jsonable(x.tolist())
    if isinstance(x, (str, int, float, bool)) or x is None:
        return x
    return str(x)


def run_concrete(case, values):
    """Run the case on real NumPy with inputs from `values`. -> (env, inp, Outcome, props)"""
    assert Ctx.cur is None
    env = Env("conc", values)
    inp = case.inputs(env)
    try:
        oc = Outcome("ok", case.run(env, inp))
    except (PathAbort, KeyboardInterrupt, SystemExit, MemoryError):
        raise
    except BaseException as e:  # noqa: BLE001
        oc = Outcome("exc", e)
    props = case.props(env, inp, oc)
    return env, inp, oc, props


def _prop_bool(p):
    t = tob(p).t
    if not isinstance(t, bool):
        raise TypeError("property did not evaluate to a concrete truth value in concrete mode")
    return t


# --------------------------------------------------------------------------
# one case
# --------------------------------------------------------------------------
class CaseReport:
    def __init__(self, cid, family):
        self.id = cid
        self.family = family
        self.paths = 0
        self.decisions = 0
        self.forks = 0
        self.obligations = 0
        self.discharged = 0
        self.unknown = 0
        self.violations = []       # dicts (reproduced counterexamples)
        self.nonrepro = []         # sat but not reproduced -> harness error
        self.canaries_ok = 0
        self.canaries_bad = []
        self.validated = 0
        self.validation_mismatch = []
        self.reach_ok = 0
        self.reach_bad = 0
        self.solver_time = 0.0
        self.feas_queries = 0
        self.solve = solve.SolveStats()
        self.samples = []
        self.errors = []
        self.wall = 0.0
        self.outcomes = {}
        self.trivial = 0
        self.nondet_skipped = 0
        self.refuted = set()
        self.over_approx = 0
        self.boundary_witnesses = 0
        self.functions = {}


def run_case(case: Case, *, timeout_ms=10000, cross=False, validate=True, deadline=None) -> CaseReport:
    rep = CaseReport(case.id, case.family)
    t0 = time.time()
    try:
        _run_case(case, rep, timeout_ms, cross, validate, deadline)
    except BoundExceeded as e:
        rep.errors.append(f"bound exceeded: {e}")
    except (KeyboardInterrupt, SystemExit):
        raise
    except BaseException as e:  # noqa: BLE001 - a worker must always report back
        rep.errors.append("harness error: " + "".join(traceback.format_exception(e))[-1500:])
    rep.wall = time.time() - t0
    return rep


def _run_case(case, rep, timeout_ms, cross, validate, deadline):
    env = Env("sym")
    inp = case.inputs(env)
    base = list(env.assumptions)
    stats = Stats()
    paths = explore(lambda: case.run(env, inp), base=base, max_paths=case.max_paths,
                    timeout_ms=timeout_ms, stats=stats, deadline=deadline)
    rep.paths = stats.paths
    rep.decisions = stats.decisions
    rep.forks = stats.forks
    rep.feas_queries = stats.feas_queries
    rep.solver_time += stats.solver_time
    # an `unknown` feasibility answer makes the explorer follow both sides: the set of explored paths is then a
    # superset of the feasible ones, which is sound for both verdicts (a counterexample includes its path condition)
    rep.over_approx = stats.unknown_feas
    st = rep.solve
    for pi, pr in enumerate(paths):
        if deadline is not None and time.time() > deadline:
            # never run past the budget: what was found so far is reported, the rest counts as not decided
            rep.errors.append(f"time budget exhausted after {pi} of {len(paths)} paths")
            break
        oc = Outcome(pr.kind, pr.value)
        key = oc.describe() if oc.kind == "exc" else "ok"
        rep.outcomes[key] = rep.outcomes.get(key, 0) + 1
        ctxf = base + list(pr.pc) + list(pr.axioms)
        # properties are built outside a symbolic run: forcing a symbol there is a harness bug
        props = case.props(env, inp, oc)
        # reachability twin: the path (with assumptions) is satisfiable; its model validates the engine
        hints = [n[1] for n in pr.notes if isinstance(n, tuple) and n[0] == "distinct"]
        r, model = "unknown", None
        if hints:  # prefer a witness without ties between sorted keys
            r, model, _ = solve.check(ctxf + hints, min(timeout_ms, 2000), st)
        if r != "sat":
            r, model, _ = solve.check(ctxf, timeout_ms, st)
        if r == "sat":
            rep.reach_ok += 1
        elif r == "unsat":
            if "over-approximated" in pr.notes:
                continue   # explored only because a feasibility query was inconclusive; it is infeasible
            rep.reach_bad += 1
            rep.errors.append(f"path {pi}: vacuous (path condition with assumptions is unsat)")
            continue
        else:
            model = None  # feasibility was established branch by branch; no witness model here
        if not props:
            rep.trivial += 1
        sample_done = False
        for name, p in props:
            t = tob(p).t
            canary = name in case.expect_sat or name.startswith("canary:")
            rep.obligations += 0 if canary else 1
            if t is True:
                if canary:
                    # a canary that is trivially true on this path is simply not exercised here
                    continue
                rep.discharged += 1
                continue
            if canary and name in rep.refuted:
                continue  # one refutation per case is enough
            neg = zb(b_not(t))
            st.label = f"{case.id}/p{pi}/{name}"
            do_cross = bool(cross) and not canary and (cross is True or st.cvc5_checked < int(cross))
            res, m = solve.discharge(ctxf, neg, min(timeout_ms, 3000) if canary else timeout_ms, st,
                                     cross=do_cross, split_budget=40 if canary else 1500)
            if canary:
                if res == "sat":
                    rep.canaries_ok += 1
                    rep.refuted.add(name)
                continue
            if res == "unsat":
                rep.discharged += 1
                if not sample_done and len(rep.samples) < 3:
                    sample_done = True
                    rep.samples.append({
                        "case": case.id, "path": pi, "outcome": key, "obligation": name,
                        "path_condition": [str(c)[:160] for c in pr.pc[:8]],
                        "result": "unsat", "witness_of_path": _short_model(model, env.decl),
                    })
            elif res == "unknown":
                rep.unknown += 1
                rep.errors.append(f"path {pi} obligation {name}: solver returned unknown")
            else:
                _handle_sat(case, rep, env, name, m, pi, pr)
        if validate and model is not None:
            nm = len(rep.validation_mismatch)
            _validate(case, rep, env, inp, oc, props, model, pi)
            if hints and len(rep.validation_mismatch) > nm and solve.check(ctxf + hints, 2000, st)[0] != "sat":
                # the path took one of several admissible orders of equal values; NumPy took another
                del rep.validation_mismatch[nm:]
                rep.nondet_skipped += 1
            if len(rep.validation_mismatch) > nm:
                # A witness that sits on a branch boundary (e.g. a variance of exactly 0) can flip under float
                # rounding.  An unfaithful engine disagrees for (almost) every witness, a boundary witness for one:
                # retry with witnesses that differ from the first one in every real-valued input.
                first = rep.validation_mismatch[nm:]
                del rep.validation_mismatch[nm:]
                agreed = False
                away = []
                for name_, var in env.decl.items():
                    if z3.is_real(var):
                        try:
                            v0 = model.eval(var, model_completion=True)
                            away.append(z3.Or(var - v0 > z3.Q(1, 100), v0 - var > z3.Q(1, 100)))
                        except z3.Z3Exception:
                            pass
                for extra in (away, away[::2] or away):
                    r2, m2, _ = solve.check(ctxf + hints + extra, min(timeout_ms, 5000), st)
                    if r2 != "sat":
                        continue
                    before = len(rep.validation_mismatch)
                    _validate(case, rep, env, inp, oc, props, m2, pi)
                    if len(rep.validation_mismatch) == before:
                        agreed = True
                        rep.boundary_witnesses += 1
                        break
                    del rep.validation_mismatch[before:]
                if not agreed:
                    rep.validation_mismatch.extend(first)
    # "X changes the result" clauses: the equality canary must be refutable, otherwise the clause is violated
    for name in case.must_differ:
        if name in rep.refuted:
            continue
        if rep.errors:
            break
        # confirm on the real code: two unrelated concrete input sets both make the equality hold
        import random
        rng = random.Random(12345)
        confirmed = True
        last_values = None
        for _ in range(2):
            values = {}
            for nm, v in env.decl.items():
                values[nm] = (rng.random() < 0.5) if z3.is_bool(v) else (rng.randint(0, 3) if z3.is_int(v) else Fraction(rng.randint(1, 999), 1000))
            try:
                _, _, coc, cprops = run_concrete(case, values)
                d = dict(cprops)
                confirmed &= name in d and _safe_bool(d[name])
                last_values = values
            except Exception:  # noqa: BLE001
                confirmed = False
        entry = {"case": case.id, "family": case.family, "prop": name.replace("canary:", "") + "::never_differs",
                 "key": f"{case.family}:{name.replace('canary:', '')}::never_differs", "inputs": jsonable(last_values or {}),
                 "outcome": "returned", "path": -1, "failed_concrete_props": []}
        if confirmed:
            rep.violations.append(entry)
        else:
            entry["why"] = "equality canary never refuted symbolically but differs concretely"
            rep.nonrepro.append(entry)
    # canaries must have been refuted at least once per case
    want = [n for n in case.expect_sat if n not in case.must_differ]
    if want and rep.canaries_ok == 0 and not rep.errors:
        rep.canaries_bad.append(f"canaries {want} were never refutable")


def _short_model(model, decl, limit=12):
    out = {}
    for i, (name, v) in enumerate(decl.items()):
        if i >= limit:
            break
        try:
            out[name] = jsonable(solve.mval(model, v))
        except Exception:  # noqa: BLE001
            pass
    return out


def _handle_sat(case, rep, env, name, model, pi, pr):
    values = model_values(model, env.decl)
    try:
        cenv, cinp, coc, cprops = run_concrete(case, values)
    except Exception as e:  # noqa: BLE001
        rep.nonrepro.append({"case": case.id, "prop": name, "why": f"concrete replay crashed: {e!r}"})
        return
    d = dict(cprops)
    reproduced = None
    if name in d:
        try:
            reproduced = not _prop_bool(d[name])
        except Exception as e:  # noqa: BLE001
            rep.nonrepro.append({"case": case.id, "prop": name, "why": f"concrete property error: {e!r}"})
            return
    entry = {
        "case": case.id, "family": case.family, "prop": name, "key": f"{case.family}:{name}",
        "inputs": jsonable(values), "outcome": coc.describe(), "path": pi,
        "failed_concrete_props": [n for n, p in cprops if not n.startswith("canary:") and n not in case.expect_sat
                                  and not _safe_bool(p)],
    }
    if reproduced:
        rep.violations.append(entry)
    else:
        # the concrete run took another path or rounding hid it: look for any failing property there
        if entry["failed_concrete_props"]:
            entry["prop"] = entry["failed_concrete_props"][0]
            entry["key"] = f"{case.family}:{entry['prop']}"
            entry["note"] = f"solver counterexample for {name} reproduced as failure of {entry['prop']}"
            rep.violations.append(entry)
        else:
            entry["why"] = "counterexample did not reproduce on the real code"
            rep.nonrepro.append(entry)


def _safe_bool(p):
    try:
        return _prop_bool(p)
    except Exception:  # noqa: BLE001
        return False


def _validate(case, rep, env, inp, oc, props, model, pi):
    """Serval-style: replay a model of the path through the real code on real NumPy."""
    values = model_values(model, env.decl)
    try:
        cenv, cinp, coc, cprops = run_concrete(case, values)
    except Exception as e:  # noqa: BLE001
        rep.validation_mismatch.append({"case": case.id, "path": pi, "why": f"concrete run crashed: {e!r}"})
        return
    if coc.kind != oc.kind or (oc.kind == "exc" and type(coc.value) is not type(oc.value)):
        rep.validation_mismatch.append({"case": case.id, "path": pi,
                                        "why": f"outcome differs: symbolic {oc.describe()} / concrete {coc.describe()}",
                                        "inputs": jsonable(values)})
        return
    # compare observed outputs
    try:
        so, co = case.observe(env, inp, oc), case.observe(cenv, cinp, coc)
    except Exception as e:  # noqa: BLE001
        rep.validation_mismatch.append({"case": case.id, "path": pi, "why": f"observe failed: {e!r}"})
        return
    for k in so:
        sv, cv = vals(so[k]), vals(co.get(k))
        if sv is None and cv is None:
            continue
        if sv is None or cv is None:
            rep.validation_mismatch.append({"case": case.id, "path": pi, "why": f"{k}: None vs value"})
            return
        sv = np.asarray(sv, dtype=object)
        cv = np.asarray(cv, dtype=object)
        if sv.shape != cv.shape:
            rep.validation_mismatch.append({"case": case.id, "path": pi, "why": f"{k}: shape {sv.shape} vs {cv.shape}"})
            return
        for idx in np.ndindex(sv.shape):
            if not _agree(model, sv[idx], cv[idx]):
                rep.validation_mismatch.append({
                    "case": case.id, "path": pi, "why": f"{k}{list(idx)}: symbolic {_show(model, sv[idx])} vs concrete {cv[idx]!r}",
                    "inputs": jsonable(values)})
                return
    rep.validated += 1


def _show(model, s):
    try:
        if isinstance(s, SB):
            return str(solve.mval(model, zb(s.t)))
        s = tor(s)
        if solve.mval(model, zb(s.nan)):
            return "nan"
        if s.inf:
            return "inf" if s.inf > 0 else "-inf"
        return str(float(solve.mval(model, zr(s.v))))
    except Exception as e:  # noqa: BLE001
        return f"?({e})"


def _agree(model, s, c):
    if isinstance(s, SB) or isinstance(c, SB):
        return bool(solve.mval(model, zb(tob(s).t))) == bool(tob(c).t)
    if isinstance(s, SInt) or isinstance(c, SInt):
        sv = solve.mval(model, s.t) if not isinstance(s.t, int) else s.t
        return int(sv) == int(c.t if isinstance(c, SInt) else tor(c).to_float())
    s, c = tor(s), tor(c)
    snan = bool(solve.mval(model, zb(s.nan)))
    if snan or c.nan is True:
        return snan == (c.nan is True)
    if s.inf or c.inf:
        return s.inf == c.inf
    sv = solve.mval(model, zr(s.v))
    cvv = c.v
    return abs(sv - cvv) <= Fraction(1, 10**6) * (1 + abs(cvv))


# --------------------------------------------------------------------------
# which /repo functions were executed symbolically
# --------------------------------------------------------------------------
class EncodedMonitor:
    TOOL = 3

    def __init__(self, root):
        self.root = os.path.realpath(root)
        self.seen: dict = {}
        self.on = False

    def start(self):
        mon = sys.monitoring
        try:
            mon.use_tool_id(self.TOOL, "verif-encoded")
        except ValueError:
            return
        self.on = True

        def cb(code, offset):
            fn = code.co_filename
            if fn.startswith(self.root) and Ctx.cur is not None:
                self.seen[(fn, code.co_qualname, code.co_firstlineno)] = True
                return mon.DISABLE
            if not fn.startswith(self.root):
                return mon.DISABLE
            return None

        mon.register_callback(self.TOOL, mon.events.PY_START, cb)
        mon.set_events(self.TOOL, mon.events.PY_START)

    def stop(self):
        if self.on:
            mon = sys.monitoring
            mon.set_events(self.TOOL, 0)
            mon.register_callback(self.TOOL, mon.events.PY_START, None)
            mon.free_tool_id(self.TOOL)
            self.on = False

    def result(self):
        out = {}
        for (fn, qn, line) in self.seen:
            out[f"{os.path.relpath(fn, self.root)}:{qn}"] = line
        return out


# --------------------------------------------------------------------------
# a whole check (many cases, process pool, evidence, verdict)
# --------------------------------------------------------------------------
_CASES: list = []
_OPTS: dict = {}


def _worker(i):
    case = _CASES[i]
    mon = EncodedMonitor(os.path.join(REPO, "src"))
    mon.start()
    try:
        rep = run_case(case, **_OPTS)
    finally:
        mon.stop()
    rep.functions = mon.result()
    return rep


def load_known_findings():
    p = os.path.join(VERIF, "known_findings.json")
    if not os.path.exists(p):
        return {"findings": [], "fixed": []}
    return json.load(open(p))


def file_sha(path):
    try:
        return hashlib.sha256(open(path, "rb").read()).hexdigest()[:16]
    except OSError:
        return None


def run_check(prop_id, cases, *, tier, bounds, stubs, assumptions, level_text="", timeout_ms=None,
              jobs=None, budget_s=None, extra=None, technique="symbolic execution (symnp) + z3"):
    """Run all cases, write evidence, print the verdict lines, return the exit code."""
    from .proxy import instrument

    t0 = time.time()
    seed = int(os.environ.get("VERIF_SEED", "0") or 0)
    timeout_ms = timeout_ms or (10000 if tier == "quick" else 60000)
    jobs = jobs or int(os.environ.get("VERIF_JOBS", "0") or 0) or min(16, os.cpu_count() or 4)
    budget_s = budget_s or (600 if tier == "quick" else 3600)
    deadline = t0 + budget_s
    instrument("ropt")
    global _CASES, _OPTS
    _CASES = list(cases)
    _OPTS = dict(timeout_ms=timeout_ms, cross=(tier == "thorough"), validate=True, deadline=deadline)
    if tier == "quick":
        _OPTS["cross"] = 2  # cross-check the first two obligations of every case with cvc5
    reports = []
    if jobs > 1 and len(_CASES) > 1:
        ctxm = mp.get_context("fork")
        with ctxm.Pool(min(jobs, len(_CASES))) as pool:
            for rep in pool.imap_unordered(_worker, range(len(_CASES)), chunksize=1):
                reports.append(rep)
    else:
        for i in range(len(_CASES)):
            reports.append(_worker(i))
    reports.sort(key=lambda r: r.id)
    return finish_check(prop_id, reports, tier=tier, seed=seed, bounds=bounds, stubs=stubs,
                        assumptions=assumptions, t0=t0, extra=extra, technique=technique)


def finish_check(prop_id, reports, *, tier, seed, bounds, stubs, assumptions, t0, extra=None,
                 technique="symbolic execution (symnp) + z3"):
    kf = load_known_findings()
    known = [f for f in kf.get("findings", []) if f["property"] == prop_id]
    violations, known_hits, errors, nonrepro = [], {}, [], []
    tot = dict(paths=0, decisions=0, obligations=0, discharged=0, unknown=0, validated=0, mismatches=0,
               canaries_ok=0, reach_ok=0, reach_bad=0, trivial=0)
    st = solve.SolveStats()
    samples, funcs, outcomes = [], {}, {}
    feas_t = 0.0
    feas_q = 0
    for r in reports:
        tot["paths"] += r.paths
        tot["decisions"] += r.decisions
        tot["obligations"] += r.obligations
        tot["discharged"] += r.discharged
        tot["unknown"] += r.unknown
        tot["validated"] += r.validated
        tot["mismatches"] += len(r.validation_mismatch)
        tot["canaries_ok"] += r.canaries_ok
        tot["reach_ok"] += r.reach_ok
        tot["reach_bad"] += r.reach_bad
        tot["trivial"] += r.trivial
        st.merge(r.solve)
        feas_t += r.solver_time
        feas_q += r.feas_queries
        funcs.update(r.functions)
        for k, v in r.outcomes.items():
            outcomes[k] = outcomes.get(k, 0) + v
        if len(samples) < 6:
            samples.extend(r.samples[: 6 - len(samples)])
        for e in r.errors:
            errors.append(f"{r.id}: {e}")
        for e in r.canaries_bad:
            errors.append(f"{r.id}: {e}")
        for v in r.nonrepro:
            nonrepro.append(v)
        for v in r.violations:
            hit = next((f for f in known if fnmatch.fnmatchcase(v["key"], f["key"])), None)
            if hit is not None:
                known_hits.setdefault(hit["key"], {"finding": hit, "count": 0, "example": v})["count"] += 1
            else:
                violations.append(v)
    if st.cvc5_disagree:
        errors.append(f"z3 and cvc5 disagree on {st.cvc5_disagree} obligations")
    if tot["mismatches"]:
        ex = next((m for r in reports for m in r.validation_mismatch), {})
        errors.append(f"{tot['mismatches']} explored paths disagree with the real code on replay (engine or stub unfaithful): "
                      f"{ex.get('case')} path {ex.get('path')}: {str(ex.get('why'))[:160]}")
    os.makedirs(os.path.join(VERIF, "evidence"), exist_ok=True)
    os.makedirs(os.path.join(VERIF, "replays"), exist_ok=True)
    # one replay file per distinct violated obligation class
    by_key = {}
    for v in violations:
        by_key.setdefault(v["key"], v)
    replay_paths = {}
    for i, (k, v) in enumerate(list(by_key.items())[:60]):
        rp = os.path.join(VERIF, "replays", f"{prop_id}_{i}.json")
        json.dump(jsonable({"property": prop_id, **v, "replay_cmd": f"./check {prop_id} --replay {rp}"}), open(rp, "w"), indent=1)
        replay_paths[k] = rp
    files = sorted({k.split(":")[0] for k in funcs})
    coverage = {
        "states": tot["paths"],
        "transitions": max(tot["decisions"], 0),
        "traces_validated_against_impl": tot["validated"],
        "samples": samples or [{"note": "no discharged obligation sampled"}],
        "obligations": tot["obligations"],
        "discharged": tot["discharged"],
        "inconclusive": tot["unknown"],
        "cases": len(reports),
        "case_ids": [r.id for r in reports][:200],
        "path_outcomes": outcomes,
        "trivial_paths": tot["trivial"],
        "reachability_witnesses": tot["reach_ok"],
        "vacuous_paths": tot["reach_bad"],
        "canaries_refuted": tot["canaries_ok"],
        "inconclusive_feasibility_queries_followed_both_ways": sum(getattr(r, "over_approx", 0) for r in reports),
        "witnesses_on_a_rounding_boundary_replaced": sum(getattr(r, "boundary_witnesses", 0) for r in reports),
        "validation_mismatches": tot["mismatches"],
        "validation_mismatch_examples": [m for r in reports for m in r.validation_mismatch][:5],
        "solver": {
            "z3": z3.get_version_string(), "queries": st.queries + feas_q,
            "obligation_queries": st.queries, "feasibility_queries": feas_q,
            "solver_time_s": round(st.time + feas_t, 3), "unknown_first_try": st.unknown,
            "rescued_by_split": st.split_rescued, "rescued_by_cvc5": st.cvc5_rescued,
            "cvc5_cross_checked": st.cvc5_checked, "cvc5_agree": st.cvc5_agree,
            "cvc5_unknown": st.cvc5_unknown, "cvc5_disagree": st.cvc5_disagree,
            "cvc5_time_s": round(st.cvc5_time, 2), "slowest_queries": st.slow,
        },
        "functions_encoded": {k: funcs[k] for k in sorted(funcs)},
        "source_sha256": {f: file_sha(os.path.join(REPO, "src", f)) for f in files},
        "bounds": bounds,
        "stubs": stubs,
        "technique": technique,
        "known_findings_matched": [
            {"key": k, "count": h["count"], "what": h["finding"].get("what", "")} for k, h in known_hits.items()
        ],
        "harness_errors": errors[:20],
        "non_reproducing_counterexamples": nonrepro[:5],
        "exhaustive": False,
    }
    if extra:
        coverage.update(extra)
    if coverage["transitions"] < 1:
        coverage["transitions"] = max(1, tot["paths"])
    ev = {
        "property_id": prop_id, "tier": tier, "seed": seed, "level": "model_checking",
        "coverage": coverage, "assumptions": assumptions, "wall_s": round(time.time() - t0, 2),
        "violations": len(violations),
    }
    # runs against a deliberately broken tree (bin/run_seeded.sh, bin/try_patch.sh) must not overwrite the evidence
    ev_dir = os.environ.get("VERIF_EVIDENCE_DIR") or os.path.join(VERIF, "evidence")
    os.makedirs(ev_dir, exist_ok=True)
    json.dump(jsonable(ev), open(os.path.join(ev_dir, f"{prop_id}.json"), "w"), indent=1)
    # ---- verdict
    for k, h in known_hits.items():
        print(f"KNOWN-FINDING: property={prop_id} {h['finding'].get('what', k)} [{k}; {h['count']} counterexamples]")
    print(f"{prop_id} {tier}: cases={len(reports)} paths={tot['paths']} obligations={tot['obligations']} "
          f"discharged={tot['discharged']} inconclusive={tot['unknown']} validated={tot['validated']} "
          f"mismatches={tot['mismatches']} canaries={tot['canaries_ok']} solver_s={coverage['solver']['solver_time_s']} "
          f"wall_s={ev['wall_s']}")
    if violations:
        for k, rp in replay_paths.items():
            v = by_key[k]
            print(f"VIOLATION property={prop_id} replay={rp}")
            print(f"  {k}: case {v['case']} outcome {v['outcome']} ({sum(1 for x in violations if x['key'] == k)} counterexamples)")
        return 1
    if errors or nonrepro or tot["unknown"]:
        for e in errors[:10]:
            print("HARNESS-ERROR:", e)
        for v in nonrepro[:5]:
            print("NON-REPRODUCING:", v.get("case"), v.get("prop"), v.get("why"))
        return 2
    return 0


def replay_file(path, cases):
    """Re-run a stored counterexample on the real code. Exit 1 if it still fails."""
    d = json.load(open(path))
    case = next((c for c in cases if c.id == d["case"]), None)
    if case is None:
        print("unknown case", d["case"])
        return 2
    values = {k: (Fraction(v) if isinstance(v, float) else v) for k, v in d["inputs"].items()}
    env, inp, oc, props = run_concrete(case, values)
    bad = [n for n, p in props if not n.startswith("canary:") and n not in case.expect_sat and not _safe_bool(p)]
    print("outcome:", oc.describe())
    print("failing properties:", bad)
    if bad:
        print(f"VIOLATION property={d['property']} replay={path}")
        return 1
    return 0
