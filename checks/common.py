"""Shared pieces for the per-property harnesses."""
from __future__ import annotations

import copy
import itertools
import os
from fractions import Fraction

import numpy as np

from symnp import SB, SInt, SR, SymArray, tor
from symnp.harness import (  # noqa: F401
    And, Case, Env, Iff, Implies, Not, Or, Outcome, all_of, close, exact, finite, isnan, ite, same, ssum, vals,
)

_PM = None


def plugin_manager():
    """One PluginManager per process (entry-point discovery is slow)."""
    global _PM
    if _PM is None:
        from ropt.plugins import PluginManager
        _PM = PluginManager()
    return _PM


def make_config(d, context=None):
    from ropt.config.enopt import EnOptConfig
    return EnOptConfig.model_validate(d, context=context)


def inject(model, **fields):
    """Put (symbolic) arrays into a validated pydantic model ("construct the state directly")."""
    for k, v in fields.items():
        model.__dict__[k] = v


def clone_config(cfg):
    """A shallow structural copy whose sub-models can be injected independently."""
    new = cfg.model_copy()
    for name in type(cfg).model_fields:
        sub = getattr(cfg, name)
        if hasattr(sub, "model_copy"):
            new.__dict__[name] = sub.model_copy()
    return new


class RecordingEvaluator:
    """Evaluator stub: returns prepared arrays, records every call."""

    def __init__(self, fn):
        self.fn = fn
        self.calls = []

    def __call__(self, variables, context):
        res = self.fn(variables, context, len(self.calls))
        self.calls.append((variables, context, res))
        return res


def too_few(exc):
    from ropt.enums import OptimizerExitCode
    from ropt.exceptions import OptimizationAborted
    return isinstance(exc, OptimizationAborted) and exc.exit_code == OptimizerExitCode.TOO_FEW_REALIZATIONS


def count_true(flags):
    """number of true SBs as SR"""
    return ssum([ite(f, SR(Fraction(1)), SR(Fraction(0))) for f in flags])


def tier_from_env(default="quick"):
    return os.environ.get("VERIF_TIER", default)
