"""C14 - every run ends with the documented exit code under any failure pattern.

Encoded: Plan.run_step -> DefaultOptimizerStep.run / DefaultEvaluatorStep.run -> EnsembleOptimizer.start/
_optimizer_callback/_check_stopping_criteria/_run_evaluations -> EnsembleEvaluator.calculate and the
filters/estimators below it.  The optimizer is the scripted plug-in `symstub`.
Symbolic: a failure flag per (evaluation, realization, unperturbed | perturbation), max_functions.
Enumerated: request scripts, filter kind, estimator, thresholds, the call at which the evaluator raises.
"""
from __future__ import annotations

import itertools
from fractions import Fraction

import numpy as np

from .common import And, Case, Iff, Implies, Not, Or, SB, SR, all_of, clone_config, inject, ite, ssum
from . import ens
from .planrun import EvaluatorError, FlagEvaluator, Recorder, make_plan
from .c01 import cvar_filter, sort_filter

ONE, ZERO = SR(Fraction(1)), SR(Fraction(0))


def cnt(flags):
    return ssum([ite(f, ZERO, ONE) for f in flags])


class OptimizerRunCase(Case):
    family = "exit-code/optimizer-step"

    def __init__(self, cid, *, R=2, P=1, script, filt=None, estimator="mean", rmin=1, pmin=1, maxf=None, raise_at=None,
                 allow_nan=False, C=0, transforms=None, redirect=False, exc_class=None, nan_col=0, merge=False):
        """script: list of (functions?, gradients?, point index)"""
        self.merge = merge
        self.id = cid
        self.nan_col = nan_col
        self.R, self.P, self.script, self.filt, self.estimator = R, P, script, filt, estimator
        self.rmin, self.pmin, self.maxf, self.raise_at, self.allow_nan, self.C = rmin, pmin, maxf, raise_at, allow_nan, C
        filters, obj_filt, con_filt = (), None, None
        if filt == "sort-objective":
            filters, obj_filt = (sort_filter(1, R - 1),), (0,)
        elif filt == "cvar-objective":
            filters, obj_filt = (cvar_filter(0.5),), (0,)
        elif filt == "sort-constraint":
            filters, obj_filt, con_filt = (sort_filter(1, R - 1, kind="constraint"),), (0,), (0,)
        elif filt == "cvar-constraint":
            filters, obj_filt, con_filt = (cvar_filter(0.5, kind="constraint"),), (-1,), (0,)
        if filt and "constraint" in filt:
            self.C = C = max(C, 1)
        self.first = 1 if filt and filt.startswith("sort") else None
        rng = np.random.default_rng([R, P, 21])
        self.design = np.round(rng.uniform(-1, 1, (R, P, 2)) * 64) / 64
        self.transforms = None
        if transforms == "constraints":
            self.C = C = max(C, 1)
            self.transforms = ens.make_transforms(con_scales=np.array([2.0] * C))
        elif transforms == "all":
            self.C = C = max(C, 1)
            self.transforms = ens.make_transforms(var_scales=np.array([2.0, 0.5]), var_offsets=np.array([0.25, -0.5]),
                                                  obj_scales=np.array([4.0]), con_scales=np.array([2.0] * C))
        self.cfg0 = ens.ensemble_config(
            N=2, R=R, P=P, C=C, rmin=rmin, pmin=pmin, estimators=(estimator,), filters=filters, obj_filt=obj_filt,
            con_filt=con_filt, x0=[0.25, -0.5], lower=-10.0, upper=10.0, context=self.transforms, merge=merge,
            extra={"optimizer": {"method": "symstub/x", "max_functions": 3 if maxf else None}})
        self.tname = transforms
        self.redirect, self.exc_class = redirect, exc_class or EvaluatorError
        fam = "exit-code/optimizer-step"
        if filt:
            fam += "/" + filt
        self.family = fam

    def describe(self):
        return (f"R={self.R} P={self.P} C={self.C} transforms={self.tname} script={self.script} filter={self.filt} estimator={self.estimator} rmin={self.rmin} "
                f"pmin={self.pmin} merge={self.merge} nan_column={self.nan_col} max_functions={'symbolic' if self.maxf else None} evaluator_raises_at={self.raise_at} allow_nan={self.allow_nan}")

    def inputs(self, env):
        flags = {}
        for e, (fn, gr, _) in enumerate(self.script):
            for r in range(self.R):
                if fn:
                    flags[(e, r, -1)] = env.flag(f"nan_e{e}_{r}_u")
                if gr:
                    for p in range(self.P):
                        flags[(e, r, p)] = env.flag(f"nan_e{e}_{r}_{p}")
        maxf = env.integer("maxf", 1, len(self.script) + 1) if self.maxf else None
        return {"flags": flags, "maxf": maxf}

    def run(self, env, inp):
        cfg = clone_config(self.cfg0)
        if inp["maxf"] is not None:
            inject(cfg.optimizer, max_functions=env.num(inp["maxf"]))
        rec = Recorder()
        ev = FlagEvaluator(env, inp["flags"], C=self.C, raise_at=self.raise_at, exc=self.exc_class, nan_col=self.nan_col)
        plan, _ = make_plan(ev, rec)
        if self.redirect:  # optimizer output redirected to files (stdout/stderr of the algorithm)
            import tempfile, pathlib
            d = pathlib.Path(tempfile.mkdtemp(prefix="c14_"))
            inject(cfg.optimizer, stdout=d / "out.txt", stderr=d / "err.txt")
        ens.set_samples(lambda s: env.const(self.design))
        pts = [np.array([0.25, -0.5]), np.array([0.5, 0.75]), np.array([-0.25, 0.0])]
        done = []

        def script(opt, x0):
            for e, (fn, gr, pi) in enumerate(self.script):
                opt.callback(env.const(pts[pi]), return_functions=fn, return_gradients=gr)
                done.append(e)

        ens.set_script(script, allow_nan=self.allow_nan)
        step = plan.add_step("optimizer")
        try:
            code = plan.run_step(step, config=cfg, transforms=self.transforms)
        finally:
            if self.redirect:
                import shutil
                shutil.rmtree(d, ignore_errors=True)
        return {"code": code, "done": len(done), "events": rec.events, "calls": len(ev.calls)}

    # ---- reference semantics
    def bad(self, inp, e):
        """evaluation e has too few successes for the thresholds / filter / estimator"""
        R, P, flags = self.R, self.P, inp["flags"]
        fn, gr, pi = self.script[e]
        parts = []
        src = e if fn else max(i for i in range(e) if self.script[i][0] and self.script[i][2] == pi)
        ff = [flags[(src, r, -1)] for r in range(R)]
        if fn:
            nok = cnt(ff)
            parts.append(nok < self.rmin)
            if self.rmin < 1 and not self.allow_nan:
                parts.append(And(*ff))
            if self.first is not None:
                parts.append(nok <= self.first)       # sort window [1, R-1] holds no successful realization
            if self.filt and self.filt.startswith("cvar"):
                parts.append(nok < 1)
            if self.estimator == "stddev":
                parts.append(And(nok >= 1, nok < 2))
        if gr:
            gf = [Or(ff[r], cnt([flags[(e, r, p)] for p in range(P)]) < self.pmin) for r in range(R)]
            nokg = cnt(gf)
            parts.append(nokg < self.rmin)
            if self.rmin < 1 and not self.allow_nan:
                parts.append(And(*gf))
            if self.estimator == "stddev":
                parts.append(And(nokg >= 1, nokg < 2))
            if not fn and self.first is not None:
                pass
        return Or(*parts)

    def props(self, env, inp, oc):
        from ropt.enums import OptimizerExitCode as X

        n = len(self.script)
        if not oc.ok:
            if type(oc.exc) is self.exc_class:
                # the evaluator's own exception must surface - and only when it was really called then
                reach = self.reaches(inp, self.raise_at)
                return [("evaluator_exception_propagates_only_when_raised", reach)]
            return [("no_internal_exception:" + type(oc.exc).__name__, SB(False))]
        code, done = oc.value["code"], oc.value["done"]
        props = []
        # expected outcome as a function of the flags and the budget
        exp = []  # (condition, code, done)
        alive = SB(True)
        completed = 0
        for e in range(n):
            fn = self.script[e][0]
            if inp["maxf"] is not None:
                hit = inp["maxf"]._real() <= completed
                exp.append((And(alive, hit), X.MAX_FUNCTIONS_REACHED, e))
                alive = And(alive, Not(hit))
            if self.raise_at == e:
                exp.append((alive, "raise", e))
                alive = SB(False)
                break
            b = self.bad(inp, e)
            exp.append((And(alive, b), X.TOO_FEW_REALIZATIONS, e))
            alive = And(alive, Not(b))
            completed += 1 if fn else 0
        exp.append((alive, X.OPTIMIZER_STEP_FINISHED, n))
        props.append(("documented_exit_code", SB(code in (X.TOO_FEW_REALIZATIONS, X.MAX_FUNCTIONS_REACHED, X.OPTIMIZER_STEP_FINISHED))))
        props.append(("exit_code_and_stop_point_as_specified", Or(*[c for c, k, d in exp if k == code and d == done])))
        # budget: function results delivered never exceed max_functions
        fin = [ev for ev in oc.value["events"] if ev[0] == "h" and ev[1] == "FINISHED_EVALUATION" and ev[3]]
        if inp["maxf"] is not None:
            nfun = sum(1 for e in range(min(done + 1, n)) if self.script[e][0] and e < oc.value["calls"])
            props.append(("function_evaluations_within_budget", inp["maxf"]._real() >= sum(1 for e in range(done) if self.script[e][0])))
        # results of a failing evaluation (too few successes by count) are still delivered
        if code == X.TOO_FEW_REALIZATIONS and not self.filt and self.estimator == "mean":
            props.append(("failing_evaluation_results_delivered", SB(len(fin) == done + 1)))
        if code == X.OPTIMIZER_STEP_FINISHED:
            props.append(("all_results_delivered", SB(len(fin) == n)))
        return props

    def reaches(self, inp, e):
        alive = SB(True)
        completed = 0
        for i in range(e):
            if inp["maxf"] is not None:
                alive = And(alive, Not(inp["maxf"]._real() <= completed))
            alive = And(alive, Not(self.bad(inp, i)))
            completed += 1 if self.script[i][0] else 0
        if inp["maxf"] is not None:
            alive = And(alive, Not(inp["maxf"]._real() <= completed))
        return alive

    def observe(self, env, inp, oc):
        return {}


class EvaluatorStepCase(Case):
    family = "exit-code/evaluator-step"

    def __init__(self, cid, *, R=2, filt=None, estimator="mean", rmin=1, B=1, C=0, nan_col=0):
        self.id, self.R, self.filt, self.estimator, self.rmin, self.B = cid, R, filt, estimator, rmin, B
        self.C, self.nan_col = C, nan_col
        filters, obj_filt = (), None
        if filt == "sort-objective":
            filters, obj_filt = (sort_filter(1, R - 1),), (0,)
        elif filt == "cvar-objective":
            filters, obj_filt = (cvar_filter(0.5),), (0,)
        self.first = 1 if filt and filt.startswith("sort") else None
        self.cfg0 = ens.ensemble_config(N=2, R=R, P=1, C=C, rmin=rmin, estimators=(estimator,), filters=filters, obj_filt=obj_filt)
        self.family = "exit-code/evaluator-step" + ("/" + filt if filt else "") + ("/stddev" if estimator == "stddev" else "")

    def describe(self):
        return f"evaluator step R={self.R} C={self.C} nan_column={self.nan_col} filter={self.filt} estimator={self.estimator} rmin={self.rmin} batch={self.B}"

    def inputs(self, env):
        if self.B > 1:  # one flag per (vector, realization)
            return {"flags": {("row", 0, b * self.R + r): env.flag(f"nan_{b}_{r}") for b in range(self.B) for r in range(self.R)}}
        return {"flags": {(0, r, -1): env.flag(f"nan_{r}") for r in range(self.R)}}

    def run(self, env, inp):
        cfg = clone_config(self.cfg0)
        rec = Recorder()
        ev = FlagEvaluator(env, inp["flags"], C=self.C, nan_col=self.nan_col)
        plan, _ = make_plan(ev, rec)
        step = plan.add_step("evaluator")
        x = np.array([0.25, -0.5]) if self.B == 1 else np.array([[0.25, -0.5], [0.5, 0.5]])
        code = plan.run_step(step, config=cfg, variables=env.const(x))
        return {"code": code, "events": rec.events}

    def props(self, env, inp, oc):
        from ropt.enums import OptimizerExitCode as X

        if not oc.ok:
            return [("no_internal_exception:" + type(oc.exc).__name__, SB(False))]
        parts = []
        for b in range(self.B):
            ff = [inp["flags"][("row", 0, b * self.R + r)] if self.B > 1 else inp["flags"][(0, r, -1)] for r in range(self.R)]
            nok = cnt(ff)
            parts.append(nok < self.rmin)
            if self.first is not None:
                parts.append(nok <= self.first)
            if self.filt and self.filt.startswith("cvar"):
                parts.append(nok < 1)
            if self.estimator == "stddev":
                parts.append(And(nok >= 1, nok < 2))
        bad = Or(*parts)
        code = oc.value["code"]
        props = [("documented_exit_code", SB(code in (X.TOO_FEW_REALIZATIONS, X.EVALUATION_STEP_FINISHED)))]
        props.append(("too_few_iff_not_enough_successes", bad if code == X.TOO_FEW_REALIZATIONS else Not(bad)))
        names = [e[1] for e in oc.value["events"] if e[0] == "h"]
        props.append(("step_events_bracketed", SB(names[:1] == ["START_EVALUATOR_STEP"] and names[-1:] == ["FINISHED_EVALUATOR_STEP"])))
        return props


class ParallelBudgetCase(Case):
    """A population method asks for batches: the function budget may be overshot by at most one batch, the run stops at
    the next request once the budget is used up, and the code is MAX_FUNCTIONS_REACHED exactly then."""

    family = "exit-code/optimizer-step/parallel"

    def __init__(self, cid, batches=(2, 2, 1, 2)):
        self.id, self.batches = cid, tuple(batches)
        self.cfg0 = ens.ensemble_config(N=2, R=1, P=1, x0=[0.25, -0.5], lower=-10.0, upper=10.0,
                                        extra={"optimizer": {"method": "symstub/x", "parallel": True, "max_functions": 3}})

    def describe(self):
        return f"parallel scripted algorithm, batches of {self.batches} vectors, symbolic max_functions"

    def inputs(self, env):
        return {"maxf": env.integer("maxf", 1, sum(self.batches) + 1)}

    def run(self, env, inp):
        cfg = clone_config(self.cfg0)
        inject(cfg.optimizer, max_functions=env.num(inp["maxf"]))
        rec = Recorder()
        ev = FlagEvaluator(env, {})
        plan, _ = make_plan(ev, rec)
        served = []

        def script(opt, x0):
            for b in self.batches:
                x = np.array([[0.125 * (i + 1), -0.5] for i in range(b)]) if b > 1 else np.array([0.5, 0.5])
                opt.callback(env.const(x), return_functions=True, return_gradients=False)
                served.append(b)

        ens.set_script(script, parallel=True)
        step = plan.add_step("optimizer")
        code = plan.run_step(step, config=cfg)
        rows = sum(int(np.shape(c.realizations)[0]) for c in ev.calls)
        return {"code": code, "served": list(served), "rows": rows}

    def props(self, env, inp, oc):
        from ropt.enums import OptimizerExitCode as X
        if not oc.ok:
            return [("no_internal_exception:" + type(oc.exc).__name__, SB(False))]
        o = oc.value
        maxf = inp["maxf"]._real() if hasattr(inp["maxf"], "_real") else inp["maxf"]
        nserved, total = len(o["served"]), sum(o["served"])
        props = [("evaluated_vectors_are_those_of_the_served_requests", SB(o["rows"] == total))]
        before_last = sum(o["served"][:-1]) if nserved else 0
        # every served request started below the budget; the overshoot is less than its batch
        props.append(("every_served_request_started_within_budget", SB(True) if nserved == 0 else maxf > before_last))
        if o["code"] == X.MAX_FUNCTIONS_REACHED:
            props.append(("stopped_only_when_budget_used_up", And(SB(nserved < len(self.batches)), maxf <= total)))
        else:
            props.append(("finished_only_when_every_request_was_within_budget",
                          And(SB(o["code"] == X.OPTIMIZER_STEP_FINISHED and nserved == len(self.batches)), maxf > before_last)))
        return props

    def observe(self, env, inp, oc):
        return {}


class StepReuseCase(Case):
    """The same optimizer step run twice with the same validated configuration object: each run has the whole
    function budget, and ends with the code its own evaluations give."""

    family = "exit-code/optimizer-step/reused"

    def __init__(self, cid, nevals=2, maxf=3):
        self.id, self.nevals, self.maxf = cid, nevals, maxf
        self.cfg0 = ens.ensemble_config(N=2, R=2, P=1, x0=[0.25, -0.5], lower=-10.0, upper=10.0,
                                        extra={"optimizer": {"method": "symstub/x", "max_functions": maxf}})

    def describe(self):
        return f"one step, two runs, {self.nevals} function requests each, max_functions={self.maxf}"

    def inputs(self, env):
        return {"flags": {(e, r, -1): env.flag(f"nan_{e}_{r}") for e in range(2 * self.nevals) for r in range(2)}}

    def run(self, env, inp):
        cfg = clone_config(self.cfg0)
        rec = Recorder()
        ev = FlagEvaluator(env, inp["flags"])
        plan, _ = make_plan(ev, rec)
        pts = [np.array([0.25, -0.5]), np.array([0.5, 0.75]), np.array([-0.25, 0.0])]
        served = []

        def script(opt, x0):
            for e in range(self.nevals):
                opt.callback(env.const(pts[e]), return_functions=True, return_gradients=False)
                served[-1] += 1

        ens.set_script(script)
        step = plan.add_step("optimizer")
        codes = []
        for _ in range(2):
            served.append(0)
            codes.append(plan.run_step(step, config=cfg))
        return {"codes": codes, "served": served, "calls": len(ev.calls)}

    def props(self, env, inp, oc):
        from ropt.enums import OptimizerExitCode as X
        if not oc.ok:
            return [("no_internal_exception:" + type(oc.exc).__name__, SB(False))]
        o, fl = oc.value, inp["flags"]
        props = []
        call = 0
        for run in range(2):
            # expected: evaluations are served until one has too few successes (both realizations fail: rmin = 1)
            alive, exp = SB(True), []
            for e in range(self.nevals):
                if call + e >= 2 * self.nevals:
                    break
                bad = And(fl[(call + e, 0, -1)], fl[(call + e, 1, -1)])
                exp.append((And(alive, bad), X.TOO_FEW_REALIZATIONS, e))
                alive = And(alive, Not(bad))
            exp.append((alive, X.OPTIMIZER_STEP_FINISHED, self.nevals))
            code, served = o["codes"][run], o["served"][run]
            props.append((f"run{run}.exit_code_and_stop_point_as_specified", Or(*[c for c, k, d in exp if k == code and d == served])))
            call += served + (1 if code == X.TOO_FEW_REALIZATIONS else 0)
        return props

    def observe(self, env, inp, oc):
        return {}


def build_cases(tier):
    cases = []
    k = 0

    def add(cls=OptimizerRunCase, **kw):
        nonlocal k
        k += 1
        cases.append(cls(f"c14-{k:03d}", **kw))

    S1 = [(True, False, 0), (False, True, 0), (True, False, 1)]
    S2 = [(True, True, 0), (True, True, 1)]
    S3 = [(True, False, 0), (True, False, 1), (True, False, 2)]
    for rmin in (0, 1, 2):
        add(script=S1, rmin=rmin)
        add(script=S2, rmin=rmin, P=2, pmin=2)
    add(script=S3, maxf=True)
    add(script=S3, maxf=True, C=2)          # constraints must not be charged against the function budget
    add(script=S2, maxf=True, C=1, rmin=1)
    add(script=S1, maxf=True)
    for tr in ("constraints", "all"):       # transforms of every kind
        add(script=S1, rmin=1, transforms=tr)
        add(script=S2, rmin=2, transforms=tr, maxf=True)
    add(script=S2, maxf=True, rmin=2)
    for filt in ("sort-objective", "cvar-objective", "sort-constraint", "cvar-constraint"):
        add(script=S1, filt=filt)
        add(script=S2, filt=filt, rmin=0)
    add(script=S1, estimator="stddev")
    add(script=S2, estimator="stddev", rmin=0)
    add(script=S3, rmin=0, allow_nan=True)
    for j in range(3):
        add(script=S3, raise_at=j, maxf=(j == 2))
    add(script=S1, raise_at=1)
    for j in range(2):   # the user's evaluator fails with an OS-level error while the optimizer's output is redirected
        add(script=S3, raise_at=j, redirect=True, exc_class=FileNotFoundError)
    add(script=S1, rmin=1, redirect=True)
    for filt in (None, "sort-objective", "cvar-objective"):
        for rmin in (0, 1, 2):
            add(EvaluatorStepCase, filt=filt, rmin=rmin)
    add(EvaluatorStepCase, estimator="stddev", rmin=1)
    add(EvaluatorStepCase, estimator="stddev", rmin=0, R=3)
    add(EvaluatorStepCase, rmin=1, B=2)
    # failures that show in one constraint column only; all realizations failing with more realizations than constraints
    for rmin in (1, 2):
        add(script=S1, rmin=rmin, C=2, nan_col=2)
    add(script=S2, rmin=2, C=2, nan_col=1, P=2, pmin=2)
    add(script=S1, rmin=0, C=2, R=3, allow_nan=True)
    add(script=S2, rmin=0, C=3, R=2, nan_col=3)
    add(script=S2, rmin=0, merge=True, allow_nan=True)            # merged estimation with every realization failing
    add(script=S2, rmin=1, merge=True, P=2, pmin=1)
    add(EvaluatorStepCase, rmin=2, C=2, nan_col=2)
    add(EvaluatorStepCase, rmin=0, C=2, R=3, nan_col=1)
    add(ParallelBudgetCase)
    add(StepReuseCase)
    add(ParallelBudgetCase, batches=(3, 1, 3))
    if tier == "thorough":
        for rmin in (0, 1, 2, 3):
            add(script=S1, rmin=rmin, R=3, P=2, pmin=2)
            add(script=S2 + [(True, False, 2)], rmin=rmin, R=3, maxf=True)
        for filt in ("sort-objective", "cvar-objective", "sort-constraint", "cvar-constraint"):
            add(script=S1 + [(False, True, 1)], filt=filt, R=3, rmin=1, maxf=True)
            add(EvaluatorStepCase, filt=filt if "objective" in filt else None, rmin=1, R=3)
    return cases


META = dict(
    bounds={"quick": "runs of <=3 evaluations (functions / gradient / both) with R=2, P<=2; every failure flag symbolic; max_functions symbolic in [1, n+1]; all four filter kinds, both estimators, realization_min_success in {0,1,2}; evaluator raising at each call; evaluator step with 1-2 vectors; a parallel scripted algorithm asking for batches of 1-3 vectors under a symbolic max_functions; failures that show in one constraint column only; merged estimation",
            "thorough": "R=3, 4-step scripts, filters combined with max_functions",
            "outside": "request sequences of real SciPy algorithms and their NaN handling; longer runs"},
    stubs=["optimizer plug-in `symstub` (scripted requests; allow_nan selectable)", "sampler plug-in `stub`", "evaluator: NaN where a flag holds; may raise its own exception at a given call",
           "recording ResultHandler plug-in `verifrec` and observers"],
    assumptions=["weights are uniform and positive (the reference for 'too few' counts successes)",
                 "delivery of the failing evaluation's results is required when the failure is a success-count failure (a filter/estimator abort happens before results exist)"],
)
