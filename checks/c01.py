"""C01 - ensemble function values are the normalised weighted estimate over realizations.

Encoded: EnsembleEvaluator.calculate(x, functions only) and everything below it.
Symbolic: evaluator outputs (value + NaN flag per entry), realization weights, objective weights.
Enumerated: R, K, C, batch size, estimator maps, filter maps/kinds.
"""
from __future__ import annotations

from fractions import Fraction

import numpy as np

from .common import (
    And, Case, Implies, Not, Or, RecordingEvaluator, SB, SR, all_of, close, exact, inject, isnan, ite,
    make_config, plugin_manager, ssum, too_few, vals, clone_config,
)

BOUND = 1000


def spec_mean(we, f):
    tot = ssum(we)
    return ssum([w * SR(x.v) for w, x in zip(we, f)]) / tot, tot


def spec_var(we, f):
    """(N/(N-1)) * sum wn (f-m)^2 with N = number of positive weights, plus N"""
    tot = ssum(we)
    wn = [w / tot for w in we]
    m = ssum([w * SR(x.v) for w, x in zip(wn, f)])
    n = ssum([ite(w > 0, SR(Fraction(1)), SR(Fraction(0))) for w in we])
    var = (n / (n - 1)) * ssum([w * (SR(x.v) - m) * (SR(x.v) - m) for w, x in zip(wn, f)])
    return var, n, tot


class FunctionsCase(Case):
    family = "functions"

    def __init__(self, cid, *, R, K=1, C=0, B=1, estimators=("mean",), obj_est=None, con_est=None,
                 filters=(), obj_filt=None, con_filt=None, rmin=1, both=False, expect_sat=()):
        self.id = cid
        self.R, self.K, self.C, self.B, self.rmin = R, K, C, B, rmin
        self.estimators = estimators
        # an index array of size one stands for every function (documented broadcasting)
        self.obj_est = tuple(obj_est) * K if obj_est is not None and len(obj_est) == 1 else obj_est
        self.con_est = tuple(con_est) * C if con_est is not None and len(con_est) == 1 else con_est
        self.filters = filters
        self.obj_filt = obj_filt
        self.con_filt = con_filt
        self.both = both  # go through calculate(functions+gradients) instead
        self.expect_sat = tuple(expect_sat)
        fam = "functions"
        if filters:
            mixed = (obj_filt is None or -1 in obj_filt) or (C > 0 and (con_filt is None or -1 in con_filt))
            fam = "functions/filter+unfiltered" if mixed else "functions/filtered"
        self.family = fam
        d = {
            "variables": {"initial_values": [0.0, 0.0]},
            "objectives": {"weights": [1.0] * K},
            "realizations": {"weights": [1.0] * R, "realization_min_success": rmin},
            "function_estimators": [{"method": m} for m in estimators],
            "realization_filters": list(filters),
            "gradient": {"number_of_perturbations": 1, "perturbation_min_success": 1},
        }
        if obj_est is not None:
            d["objectives"]["function_estimators"] = list(obj_est)
        if obj_filt is not None:
            d["objectives"]["realization_filters"] = list(obj_filt)
        if C:
            d["nonlinear_constraints"] = {"lower_bounds": [0.0] * C, "upper_bounds": [np.inf] * C}
            if con_est is not None:
                d["nonlinear_constraints"]["function_estimators"] = list(con_est)
            if con_filt is not None:
                d["nonlinear_constraints"]["realization_filters"] = list(con_filt)
        self.cfg0 = make_config(d)

    def describe(self):
        return (f"R={self.R} K={self.K} C={self.C} B={self.B} est={self.estimators}/{self.obj_est}/{self.con_est} "
                f"filters={[f['method'] for f in self.filters]}/{self.obj_filt}/{self.con_filt}")

    # ---- inputs
    def inputs(self, env):
        R, K, C, B = self.R, self.K, self.C, self.B
        w = env.reals("w", R, lo=0, hi=1)
        env.assume(ssum(list(w)) == 1)
        ow = env.reals("ow", K, lo=0, hi=1)
        env.assume(ssum(list(ow)) == 1)
        f = env.reals("f", (B * R, K), lo=-BOUND, hi=BOUND, nan=True)
        c = env.reals("c", (B * R, C), lo=-BOUND, hi=BOUND, nan=True) if C else None
        failed = self.failed_flags(f, c)
        for b in range(B):  # the quantifier: failure patterns that leave enough successes
            env.assume(Or(*[Not(failed[b][r]) for r in range(R)]))
        # perturbed rows may fail too: that concerns the gradient only, never the function values
        g = env.reals("g", (R, K), lo=-BOUND, hi=BOUND, nan=True) if self.both else None
        gc = env.reals("gc", (R, C), lo=-BOUND, hi=BOUND) if self.both and C else None
        return {"w": w, "ow": ow, "f": f, "c": c, "g": g, "gc": gc}

    def failed_flags(self, f, c):
        out = []
        for b in range(self.B):
            row = []
            for r in range(self.R):
                i = b * self.R + r
                fl = [isnan(x) for x in f[i]] + ([isnan(x) for x in c[i]] if c is not None else [])
                row.append(Or(*fl))
            out.append(row)
        return out

    # ---- the real code
    def run(self, env, inp):
        from ropt.ensemble_evaluator import EnsembleEvaluator
        from ropt.evaluator import EvaluatorResult

        cfg = clone_config(self.cfg0)
        inject(cfg.realizations, weights=env.arr(inp["w"], writeable=False))
        inject(cfg.objectives, weights=env.arr(inp["ow"], writeable=False))

        def ev(variables, context, n):
            f, c = inp["f"], inp["c"]
            if self.both:  # rows of the (single) perturbation per realization follow
                f = np.vstack([f, inp["g"]])
                c = None if c is None else np.vstack([c, inp["gc"]])
            return EvaluatorResult(
                objectives=env.arr(f),
                constraints=None if c is None else env.arr(c),
            )

        rec = RecordingEvaluator(ev)
        ee = EnsembleEvaluator(cfg, None, rec, plugin_manager())
        x = env.const(np.zeros((self.B, 2)) if self.B > 1 else np.zeros(2))
        if self.both:
            res = ee.calculate(x, compute_functions=True, compute_gradients=True)
            return [res[0]]
        return list(ee.calculate(x, compute_functions=True, compute_gradients=False))

    # ---- the property
    def props(self, env, inp, oc):
        R, K, C, B = self.R, self.K, self.C, self.B
        P = []
        if not oc.ok:
            if too_few(oc.exc) and ("stddev" in self.estimators or self.filters):
                return [("abort_is_too_few_realizations", SB(True))]
            return [("no_internal_exception", SB(False))]
        w, ow, f, c = list(inp["w"]), list(inp["ow"]), inp["f"], inp["c"]
        failed = self.failed_flags(f, c)
        results = oc.value
        P.append(("one_result_per_vector", SB(len(results) == B)))
        for b, res in enumerate(results[:B]):
            fl = failed[b]
            nok = ssum([ite(x, SR(Fraction(0)), SR(Fraction(1))) for x in fl])
            rf = vals(res.realizations.failed_realizations)
            P.append((f"b{b}.failed_flags", all_of(rf[r] == fl[r] for r in range(R))))
            if res.functions is None:
                P.append((f"b{b}.none_iff_too_few", nok < self.rmin))
                continue
            P.append((f"b{b}.none_iff_too_few", nok >= self.rmin))
            ow_rows = vals(res.realizations.objective_weights)
            cw_rows = vals(res.realizations.constraint_weights)
            objs = vals(res.functions.objectives)
            cons = vals(res.functions.constraints)
            for kind, n, data, outs, rows, filt, est in (
                ("obj", K, f, objs, ow_rows, self.obj_filt, self.obj_est),
                ("con", C, c, cons, cw_rows, self.con_filt, self.con_est),
            ):
                for k in range(n):
                    filtered = filt is not None and filt[k] >= 0 and self.filters
                    if rows is not None:
                        base = list(rows[k])
                        if not filtered:
                            P.append((f"b{b}.{kind}{k}.reported_weights_are_configured",
                                      all_of(exact(base[r], w[r]) for r in range(R))))
                            base = w
                    else:
                        base = w
                    col = [data[b * R + r, k] for r in range(R)]
                    we = [ite(fl[r], SR(Fraction(0)), base[r]) for r in range(R)]
                    method = self.estimators[est[k]] if est is not None else self.estimators[0]
                    out = outs[k]
                    if method in ("mean", "default"):
                        spec, tot = spec_mean(we, col)
                        P.append((f"b{b}.{kind}{k}.mean", Implies(tot > 0, close(out, spec))))
                        if kind == "obj" and k == 0 and b == 0:
                            P.append(("canary:no_renormalisation",
                                      Implies(tot > 0, close(out, ssum([a * SR(x.v) for a, x in zip(we, col)])))))
                    else:
                        var, n_pos, tot = spec_var(we, col)
                        P.append((f"b{b}.{kind}{k}.stddev",
                                  Implies(And(tot > 0, n_pos >= 2),
                                          And(Not(isnan(out)), out >= 0, close(out * out, var)))))
            wo = vals(res.functions.weighted_objective)
            spec_wo = ssum([ow[k] * SR(objs[k].v) for k in range(K)])
            anynan = Or(*[isnan(objs[k]) for k in range(K)])
            P.append((f"b{b}.weighted_objective", Implies(Not(anynan), close(wo, spec_wo))))
        return P

    def observe(self, env, inp, oc):
        if not oc.ok:
            return {}
        out = {}
        for b, res in enumerate(oc.value):
            out[f"failed{b}"] = res.realizations.failed_realizations
            if res.functions is not None:
                out[f"objectives{b}"] = res.functions.objectives
                out[f"weighted{b}"] = res.functions.weighted_objective
                if res.functions.constraints is not None:
                    out[f"constraints{b}"] = res.functions.constraints
        return out


class FloatProbeCase(Case):
    """Concrete companion (no solver variable): the real-arithmetic obligations above say nothing about
    cancellation.  Values of magnitude 1e8 with a spread of order one are pushed through the real code and
    compared with the exact rational value of the defining formula (validation of the real-number abstraction)."""

    family = "functions/float-conditioning"

    def __init__(self, cid, estimator, base, weights, deltas):
        self.id, self.estimator, self.base, self.weights, self.deltas = cid, estimator, base, weights, deltas
        self.cfg0 = make_config({
            "variables": {"initial_values": [0.0]},
            "realizations": {"weights": list(weights), "realization_min_success": 1},
            "function_estimators": [{"method": estimator}],
        })

    def describe(self):
        return f"{self.estimator} of values {self.base}+{self.deltas} with weights {self.weights} (Float64 vs exact)"

    def inputs(self, env):
        return {}

    def run(self, env, inp):
        from ropt.ensemble_evaluator import EnsembleEvaluator
        from ropt.evaluator import EvaluatorResult
        vals_ = np.array([[self.base + d] for d in self.deltas])
        ee = EnsembleEvaluator(self.cfg0, None, lambda v, c: EvaluatorResult(objectives=vals_.copy()), plugin_manager())
        (res,) = ee.calculate(np.zeros(1), compute_functions=True, compute_gradients=False)
        return float(res.functions.objectives[0])

    def props(self, env, inp, oc):
        if not oc.ok:
            return [("no_internal_exception:" + type(oc.exc).__name__, SB(False))]
        w = [Fraction(x) for x in self.weights]
        tot = sum(w)
        w = [x / tot for x in w]
        f = [Fraction(self.base) + Fraction(d) for d in self.deltas]
        m = sum(a * b for a, b in zip(w, f))
        if self.estimator == "mean":
            exact_v = float(m)
        else:
            n = sum(1 for x in w if x > 0)
            var = Fraction(n, n - 1) * sum(a * (b - m) ** 2 for a, b in zip(w, f))
            exact_v = float(var) ** 0.5
        got = oc.value
        return [(f"{self.estimator}.float_result_close_to_exact", SB(abs(got - exact_v) <= 1e-6 * (1 + abs(exact_v))))]


def sort_filter(first, last, sort=(0,), kind="objective"):
    return {"method": f"sort-{kind}", "options": {"sort": list(sort) if kind == "objective" else sort[0],
                                                   "first": first, "last": last}}


def cvar_filter(p, sort=(0,), kind="objective"):
    return {"method": f"cvar-{kind}", "options": {"sort": list(sort) if kind == "objective" else sort[0],
                                                   "percentile": p}}


def build_cases(tier):
    cases = []
    n = 0

    def add(**kw):
        nonlocal n
        n += 1
        cases.append(FunctionsCase(f"c01-{n:03d}", **kw))

    Rs = (2, 3) if tier == "quick" else (2, 3, 4)
    for R in Rs:
        add(R=R, K=1, expect_sat=("canary:no_renormalisation",))
        add(R=R, K=2, C=1)
        add(R=R, K=2, B=2)
        add(R=R, K=1, both=True)
        add(R=R, K=1, C=2)   # a realization may fail in one constraint column only
        if R <= 3:
            add(R=R, K=2, estimators=("mean", "stddev"), obj_est=(0, 1))
            add(R=R, K=1, C=1, estimators=("stddev", "mean"), obj_est=(1,), con_est=(0,))
        # filters: filtered next to unfiltered, all filtered, on constraints
        if R <= 3 or tier == "thorough":
            add(R=R, K=2, filters=(sort_filter(0, R - 2),), obj_filt=(0, -1))
            add(R=R, K=2, filters=(sort_filter(0, R - 2),), obj_filt=(0, 0))
        if R <= 3:
            add(R=R, K=1, C=1, filters=(sort_filter(0, R - 2, kind="constraint"),), obj_filt=(-1,), con_filt=(0,))
            add(R=R, K=2, filters=(cvar_filter(0.5),), obj_filt=(-1, 0))
            add(R=R, K=1, C=1, filters=(sort_filter(1, R - 1),), obj_filt=(0,), con_filt=(-1,))
    add(R=3, K=2, filters=(sort_filter(0, 1), cvar_filter(0.5, sort=(1,))), obj_filt=(0, 1))   # two filters, one objective each
    add(R=2, K=2, C=2, estimators=("stddev", "mean"), obj_est=(1,), con_est=(1,))   # one index for all functions
    add(R=3, K=1, B=2, estimators=("stddev",))   # one estimator object serves two vectors with different failure counts
    for est in ("mean", "stddev"):
        for base in (1e8, -3e7):
            n += 1
            cases.append(FloatProbeCase(f"c01-{n:03d}", est, base, (1.0, 2.0, 1.0, 3.0, 1.0), (0.0, 1.0, 2.0, 3.5, -1.25)))
    if tier == "thorough":
        add(R=3, K=2, C=2, B=2, estimators=("mean", "stddev"), obj_est=(0, 1), con_est=(1, 0))
        add(R=3, K=3, C=1, filters=(sort_filter(0, 1), cvar_filter(0.6, sort=(1,))), obj_filt=(0, 1, -1), con_filt=(1,))
        add(R=4, K=2, C=1, B=2)
        add(R=3, K=1, rmin=2)
        add(R=3, K=2, rmin=3, filters=(sort_filter(0, 1),), obj_filt=(0, -1))
    return cases


META = dict(
    bounds={"quick": "R<=3, K<=2, C<=2, batch<=2, values in [-1000,1000], weights in [0,1] summing to 1",
            "thorough": "R<=4 (mean), R<=3 (stddev, filters), K<=3, C<=2, batch<=2",
            "outside": "larger shapes; floating-point rounding of the results (tolerance 1e-6 relative); overflow"},
    stubs=["evaluator: returns fresh symbols (value + NaN flag) per (row, function); PluginManager is real"],
    assumptions=[
        "at least one realization of each evaluated vector succeeds (the property's premise)",
        "value comparisons apply when the weights in force of the surviving realizations have a positive sum",
        "for filtered functions the weights in force are the reported Realizations rows (C04/C05 decide those rows)",
        "real arithmetic: results compared up to 1e-6*(1+|x|)",
    ],
)
