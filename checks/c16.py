"""C16 - runs are reproducible from configuration and seed alone (partial: non-interference of ropt's own code).

Encoded: EnsembleEvaluator.__init__/_init_samplers/_get_mask, calculate -> _perturb_variables,
SciPySampler.__init__/_init_sampler/generate_samples/_generate_stats_samples/_generate_qmc_samples.
Self-composition: the same configuration and seed are run in two different hidden environments
(NumPy's global generator, unseeded generators, what an earlier run left behind on shared plug-in
objects).  Every random draw is a solver variable that is a function of (generator stream, draw index)
for a seeded stream and a havoc variable otherwise; the evaluator requests of the two runs must be equal.
Not claimed: bit-identical whole-run traces through real SciPy optimizers and the C implementations of
Generator / rvs / the QMC engines (behind the stubs), hash-seed or OS effects.
"""
from __future__ import annotations

from fractions import Fraction

import numpy as np

from symnp import SymArray
from symnp.proxy import PROXY
from .common import And, Case, Implies, Not, Or, SB, SR, all_of, clone_config, close, exact, inject, isnan, plugin_manager, vals
from . import ens

STATS = ("uniform", "norm", "truncnorm")
QMC = ("sobol", "halton", "lhs")
KMAX = 40


class Stream:
    """what default_rng(seed) returns under the stub: a stream identified by its seed"""

    def __init__(self, key):
        self.key, self.k = key, 0


class ReproCase(Case):
    family = "reproducibility"

    def __init__(self, cid, *, methods, N=2, R=2, P=2, shared=False, sampler_map=None, mask=None, interference="earlier-run", options=None):
        self.id = cid
        self.methods, self.N, self.R, self.P, self.shared, self.sampler_map, self.mask = methods, N, R, P, shared, sampler_map, mask
        self.interference = interference
        self.options = options or {}
        samplers = [{"method": m, "shared": shared, "options": dict(self.options)} for m in methods]
        self.cfg_a = ens.ensemble_config(N=N, R=R, P=P, mask=mask, samplers=samplers, sampler_map=sampler_map, seed=11)
        self.cfg_b = ens.ensemble_config(N=N, R=R, P=P, mask=mask, samplers=samplers, sampler_map=sampler_map, seed=12)
        # the earlier, unrelated optimization uses the same method with explicit distribution options
        other_opts = {"uniform": {"loc": -0.5, "scale": 1.0}, "truncnorm": {"a": -0.5, "b": 0.5}, "norm": {"scale": 2.0}}.get(methods[-1], {})
        self.cfg_other = ens.ensemble_config(N=N, R=1, P=3, samplers=[{"method": methods[-1], "options": other_opts}], seed=11)

    def describe(self):
        return f"samplers={self.methods} options={self.options} shared={self.shared} map={self.sampler_map} mask={self.mask} N={self.N} R={self.R} P={self.P} interference={self.interference}"

    def inputs(self, env):
        u = {}
        for key in ("seed11", "seed12", "hidden1", "hidden2"):
            u[key] = env.reals(f"u_{key}", KMAX, lo=0, hi=1)
        return {"u": u}

    def run(self, env, inp):
        import ropt.ensemble_evaluator._ensemble_evaluator as EE
        import ropt.plugins.sampler.scipy as S
        from ropt.evaluator import EvaluatorResult

        state = {"hidden": "hidden1", "hk": 0}

        def draw(g):
            if isinstance(g, Stream):
                x = inp["u"][g.key][g.k]
                g.k += 1
                return x
            x = inp["u"][state["hidden"]][state["hk"]]   # global / unseeded generator: anything
            state["hk"] += 1
            return x

        class StubDist:
            def __init__(self, name):
                self.name = name

            def rvs(self, size=None, random_state=None, **opts):
                out = np.empty(tuple(size), dtype=object)
                for idx in np.ndindex(*size):
                    x = draw(random_state)
                    if self.name == "norm":
                        x = (x - Fraction(1, 2)) * 6 * Fraction(opts.get("scale", 1.0)) + Fraction(opts.get("loc", 0.0))
                    elif self.name == "uniform":
                        x = Fraction(opts.get("loc", 0.0)) + x * Fraction(opts.get("scale", 1.0))
                    else:
                        a, b = Fraction(opts.get("a", -1.0)), Fraction(opts.get("b", 1.0))
                        x = a + x * (b - a)
                    out[idx] = x
                return env.arr(out)

        class StubEngine:
            """like SciPy's scrambled engines: the scrambling is fixed by the generator given at construction,
            reset() restarts the sequence; `rng` is a settable attribute"""

            def __init__(self, d, seed=None, **opts):
                self.d, self.g, self.rng, self.pos = d, seed, seed, 0

            def reset(self):
                self.pos = 0
                return self

            def random(self, n):
                out = np.empty((n, self.d), dtype=object)
                for idx in np.ndindex(n, self.d):
                    if isinstance(self.g, Stream):
                        out[idx] = inp["u"][self.g.key][self.pos]
                        self.pos += 1
                    else:
                        out[idx] = draw(self.g)
                return env.arr(out)

        def stub_scale(sample, l_bounds, u_bounds):
            lo, hi = np.asarray(l_bounds, dtype=float), np.asarray(u_bounds, dtype=float)
            return sample * (hi - lo) + lo

        def stub_default_rng(seed=None):
            if seed is None:
                return None  # an unseeded generator is part of the hidden environment
            return Stream(f"seed{int(np.asarray(seed).ravel()[0])}")

        class HavocRandom:
            """np.random.* inside ropt: the global generator"""
            def __getattr__(self, name):
                def f(*a, size=None, **k):
                    shape = () if size is None else (size if isinstance(size, tuple) else (size,))
                    out = np.empty(shape, dtype=object)
                    for idx in np.ndindex(*shape):
                        out[idx] = draw(None)
                    return env.arr(out) if shape else draw(None)
                return f

        old = (dict(S._STATS_SAMPLERS), dict(S._QMC_ENGINES), S.scale, EE.default_rng)
        S._STATS_SAMPLERS.update({k: StubDist(k) for k in STATS})
        S._QMC_ENGINES.update({k: StubEngine for k in QMC})
        S.scale, EE.default_rng = stub_scale, stub_default_rng
        PROXY.__dict__["random"] = HavocRandom()
        pm = plugin_manager()
        try:
            def one_run(cfg, hidden):
                state["hidden"], state["hk"] = hidden, 0
                calls = []

                def evaluator(variables, context):
                    calls.append((variables, context))
                    return EvaluatorResult(objectives=np.full((variables.shape[0], 1), np.nan))

                ee = EE.EnsembleEvaluator(cfg, None, evaluator, pm)
                x = env.const(np.zeros(self.N))
                ee.calculate(x, compute_functions=True, compute_gradients=True)
                ee.calculate(x + 0.5, compute_functions=True, compute_gradients=True)   # a second gradient: the stream continues
                return calls

            if self.interference == "same-step":
                return self.same_step_runs(env, state)
            run1 = one_run(clone_config(self.cfg_a), "hidden1")
            if self.interference == "earlier-run":
                one_run(clone_config(self.cfg_other), "hidden2")   # another optimization earlier in the same process
            run2 = one_run(clone_config(self.cfg_a), "hidden2")
            run3 = one_run(clone_config(self.cfg_b), "hidden1")
        finally:
            S._STATS_SAMPLERS.clear(), S._STATS_SAMPLERS.update(old[0])
            S._QMC_ENGINES.clear(), S._QMC_ENGINES.update(old[1])
            S.scale, EE.default_rng = old[2], old[3]
            PROXY.__dict__.pop("random", None)
        return {"run1": run1, "run2": run2, "run3": run3}

    def same_step_runs(self, env, state):
        """One optimizer step of one plan, run twice with the same validated configuration object (what the inner
        step of a nested plan goes through), then once more with another seed."""
        from ropt.evaluator import EvaluatorResult
        from ropt.plan import OptimizerContext, Plan

        pm = ens.stub_optimizer_manager()
        sink = {"calls": None}

        def evaluator(variables, context):
            sink["calls"].append((variables, context))
            return EvaluatorResult(objectives=np.full((variables.shape[0], 1), np.nan))   # only the requests are compared

        def script(opt, x0):
            x = env.const(np.zeros(self.N))
            opt.callback(x, return_functions=True, return_gradients=True)
            opt.callback(x + 0.5, return_functions=True, return_gradients=True)

        ens.set_script(script, allow_nan=True)
        plan = Plan(OptimizerContext(evaluator=evaluator, plugin_manager=pm))
        step = plan.add_step("optimizer")
        cfg = clone_config(self.cfg_a)
        cfg.optimizer.__dict__["method"] = "symstub/x"
        cfg.realizations.__dict__["realization_min_success"] = 0
        out = {}
        for name, hidden in (("run1", "hidden1"), ("run2", "hidden2")):
            state["hidden"], state["hk"] = hidden, 0
            sink["calls"] = out[name] = []
            plan.run_step(step, config=cfg)
        cfg_b = clone_config(self.cfg_b)
        cfg_b.optimizer.__dict__["method"] = "symstub/x"
        cfg_b.realizations.__dict__["realization_min_success"] = 0
        state["hidden"], state["hk"] = "hidden1", 0
        sink["calls"] = out["run3"] = []
        plan.run_step(step, config=cfg_b)
        return out

    def props(self, env, inp, oc):
        if not oc.ok:
            return [("no_internal_exception:" + type(oc.exc).__name__, SB(False))]
        o = oc.value
        props = [("same_number_of_evaluator_calls", SB(len(o["run1"]) == len(o["run2"]) == 2))]
        same_seed, other_seed = [], []
        for (v1, c1), (v2, c2), (v3, c3) in zip(o["run1"], o["run2"], o["run3"]):
            a, b, c = (np.asarray(vals(v), dtype=object) for v in (v1, v2, v3))
            props.append(("request_shapes_equal", SB(a.shape == b.shape)))
            if a.shape != b.shape:
                continue
            same_seed += [exact(x, y) for x, y in zip(a.flat, b.flat)]
            other_seed += [exact(x, y) for x, y in zip(a.flat, c.flat)]
            props.append(("labels_equal", SB(list(c1.realizations) == list(c2.realizations)
                                             and list(c1.perturbations) == list(c2.perturbations))))
        props.append(("same_config_and_seed_give_identical_requests", all_of(same_seed)))
        # absolute form for a single distribution sampler: the perturbations are the seeded draws, mapped with the
        # *configured* distribution options (defaults if none) - whatever ran earlier in this process
        if len(self.methods) == 1 and self.methods[0] in STATS and not self.shared and self.mask is None and self.sampler_map is None:
            m = self.methods[0]
            R, P, N = self.R, self.P, self.N
            for run in ("run1", "run2"):
                k = 0
                for e, (v, c) in enumerate(o[run]):
                    a = np.asarray(vals(v), dtype=object)
                    x = 0.5 * e   # the second evaluation is at x + 0.5
                    for r in range(R):
                        for p_ in range(P):
                            for j in range(N):
                                u = inp["u"]["seed11"][k]
                                k += 1
                                if m == "norm":
                                    d = (u - Fraction(1, 2)) * 6 * Fraction(self.options.get("scale", 1.0)) + Fraction(self.options.get("loc", 0.0))
                                elif m == "uniform":
                                    d = Fraction(self.options.get("loc", -1.0)) + u * Fraction(self.options.get("scale", 2.0))
                                else:
                                    lo_, hi_ = Fraction(self.options.get("a", -1.0)), Fraction(self.options.get("b", 1.0))
                                    d = lo_ + u * (hi_ - lo_)
                                props.append((f"{run}.eval{e}.r{r}p{p_}v{j}.is_seeded_draw_with_configured_options",
                                              close(a[R + r * P + p_, j], SR(Fraction(x)) + SR(Fraction(1, 10)) * d)))
        props.append(("canary:another_seed_gives_the_same_perturbations", all_of(other_seed)))
        return props

    def observe(self, env, inp, oc):
        return {}


class OptimizerSeedCase(Case):
    """A population optimizer given an explicit seed option must receive exactly that seed (0 included):
    otherwise SciPy falls back to NumPy's global generator and the run depends on hidden state."""

    family = "reproducibility/optimizer-seed"

    def __init__(self, cid, key, parallel, generator=False):
        self.id, self.key, self.parallel, self.generator = cid, key, parallel, generator

    def describe(self):
        what = "Generator seeded with a symbolic small integer" if self.generator else "<symbolic small integer>"
        return f"differential_evolution options {{'{self.key}': {what}}} parallel={self.parallel}"

    def inputs(self, env):
        return {"seed": env.integer("seed", 0, 3)}

    def run(self, env, inp):
        import ropt.plugins.optimizer.scipy as S
        from .common import make_config

        seed = int(inp["seed"])
        import numpy as real_np
        given = real_np.random.default_rng(seed) if self.generator else seed
        state0 = repr(given.bit_generator.state) if self.generator else None
        cfg = make_config({"variables": {"initial_values": [0.0, 0.0], "lower_bounds": -1.0, "upper_bounds": 1.0},
                           "optimizer": {"method": "differential_evolution", "parallel": self.parallel, "options": {self.key: given, "maxiter": 3}}})
        rec = {}
        old = (S.differential_evolution, S.Bounds)
        S.differential_evolution = lambda **kw: rec.update(kw)
        S.Bounds = lambda lo, hi: (lo, hi)
        try:
            S.SciPyOptimizer(cfg, lambda *a, **k: None).start(np.zeros(2))
        finally:
            S.differential_evolution, S.Bounds = old
        out = {"kw": rec, "seed": seed}
        if self.generator:
            got = rec.get("seed", rec.get("rng"))
            # the back-end draws from what it was handed; a second run of the same configuration must start
            # from the same stream, so the configuration's own generator must not have moved
            out["first_draw"] = float(got.random()) if hasattr(got, "random") else None
            out["expected_draw"] = float(real_np.random.default_rng(seed).random())
            out["config_state_kept"] = repr(cfg.optimizer.options[self.key].bit_generator.state) == state0
        return out

    def props(self, env, inp, oc):
        if not oc.ok:
            return [("no_internal_exception:" + type(oc.exc).__name__, SB(False))]
        kw, seed = oc.value["kw"], oc.value["seed"]
        got = kw.get("seed", kw.get("rng", "missing"))
        if self.generator:
            return [("explicit_seed_reaches_the_optimizer", SB(oc.value["first_draw"] is not None and oc.value["first_draw"] == oc.value["expected_draw"])),
                    ("a_run_does_not_consume_the_generator_of_the_configuration", SB(bool(oc.value["config_state_kept"]))),
                    ("other_options_forwarded", SB(kw.get("maxiter") == 3))]
        return [("explicit_seed_reaches_the_optimizer", SB(got == seed and not isinstance(got, str))),
                ("other_options_forwarded", SB(kw.get("maxiter") == 3))]


def build_cases(tier):
    cases = []
    k = 0

    def add(**kw):
        nonlocal k
        k += 1
        c = ReproCase(f"c16-{k:03d}", **kw)
        c.expect_sat = ("canary:another_seed_gives_the_same_perturbations",)
        c.must_differ = ("canary:another_seed_gives_the_same_perturbations",)   # "changing only the seed changes the perturbations"
        cases.append(c)

    for m in STATS + QMC:
        add(methods=(m,))
    add(methods=("norm", "lhs"), N=3, sampler_map=(0, 1, 0))
    add(methods=("sobol", "uniform"), N=3, sampler_map=(1, 0, 1), shared=True)
    add(methods=("truncnorm",), N=3, mask=(True, False, True), interference="hidden-only")
    add(methods=("lhs",), options={"scramble": False})
    add(methods=("sobol",), options={"scramble": False}, interference="hidden-only")
    add(methods=("norm",), interference="same-step")      # one plan step run twice with one configuration object
    add(methods=("lhs", "uniform"), N=3, sampler_map=(0, 1, 0), interference="same-step")
    for key in ("seed", "rng"):
        for par in (False, True):
            k += 1
            cases.append(OptimizerSeedCase(f"c16-{k:03d}", key, par))
        k += 1
        cases.append(OptimizerSeedCase(f"c16-{k:03d}", key, False, generator=True))
    if tier == "thorough":
        for m in STATS + QMC:
            add(methods=(m,), shared=True, R=3)
            add(methods=(m, "norm"), N=3, sampler_map=(0, 1, 1), interference="hidden-only")
    return cases


META = dict(
    bounds={"quick": "every built-in sampler method alone, two-sampler assignments, shared on/off, a mask; N<=3, R=2, P=2; two gradient evaluations per run; up to 40 draws per stream",
            "thorough": "every method shared with R=3 and combined with a second sampler",
            "outside": "bit-identical traces through real SciPy optimizers, Generator, rvs and the QMC engines; hash seeds; the operating system"},
    stubs=["numpy.random.default_rng(seed): a stream object identified by the seed (None -> hidden environment)",
           "rvs / QMC engine.random: the k-th draw of a seeded stream is the solver variable u[seed][k]; draws from the global or an unseeded generator are havoc variables that differ between the two runs",
           "np.random.* inside ropt modules: havoc variables", "evaluator: NaN objectives (only requests are compared)"],
    assumptions=["SciPy's distributions and engines are deterministic functions of the generator they are given (their documented contract)"],
)
