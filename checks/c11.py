"""C11 - scaling transforms change optimizer coordinates only, not user-domain behaviour.

Differential, both sides symbolic: the same user-domain problem is pushed through ropt (a) without transforms
and (b) with a VariableScaler (symbolic positive scales, symbolic offsets) and linear objective/constraint
scalers.  Encoded: VariableScaler.*, VariablesConfig._broadcast_and_transform,
LinearConstraintsConfig.apply_transformation, NonlinearConstraintsConfig._broadcast_and_check,
GradientConfig.fix_perturbations (validators called directly with the transforms as validation context),
EnsembleEvaluator.calculate (request layer, _perturb_variables/_apply_bounds), ConstraintInfo.create /
transform_from_optimizer, Functions/FunctionEvaluations/FunctionResults.transform_from_optimizer.
"""
from __future__ import annotations

import itertools
from fractions import Fraction

import numpy as np

from symnp import SymArray
from .common import And, Case, Iff, Implies, Not, Or, SB, SR, all_of, clone_config, close, exact, inject, isnan, ite, ssum, vals
from . import ens

INF = SR(Fraction(0), False, 1)
ZERO = SR(Fraction(0))


class Info:
    def __init__(self, context):
        self.context = context


class TransformCase(Case):
    family = "transforms"

    def __init__(self, cid, *, N=2, L=1, C=1, K=1, ptypes=("absolute", "absolute"), boundary=("truncate_both", "truncate_both"),
                 lkinds=("both",), nkinds=("both",), obj_scaler=True, con_scaler=True, offsets=True, reuse=False, fail=False,
                 var_bounds="both", scale_form="vector"):
        self.id = cid
        self.scale_form = scale_form   # "size1": the scaler is given one scale that NumPy broadcasts over the variables
        self.N, self.L, self.C, self.K = N, L, C, K
        self.ptypes, self.boundary, self.lkinds, self.nkinds = tuple(ptypes), tuple(boundary), tuple(lkinds), tuple(nkinds)
        if scale_form == "absent":
            offsets = False
        self.obj_scaler, self.con_scaler, self.offsets = obj_scaler, con_scaler and C > 0, offsets
        self.reuse, self.fail, self.var_bounds = reuse, fail, var_bounds
        self.family = "transforms/" + ("relative" if "relative" in ptypes else "absolute") + ("/linear" if L else "")
        lin = None
        if L:
            lin = {"coefficients": [[1.0] * N] * L, "lower_bounds": [0.0] * L, "upper_bounds": [1.0] * L}
        self.cfg0 = ens.ensemble_config(N=N, R=1, P=1, K=K, C=C, lower=0.0, upper=1.0, x0=[0.5] * N, boundary=list(boundary),
                                        ptypes=list(ptypes), magnitudes=0.1, linear=lin)

    def describe(self):
        return (f"N={self.N} linear={self.lkinds if self.L else ()} nonlinear={self.nkinds if self.C else ()} perturbations={self.ptypes} "
                f"boundary={self.boundary} objective_scaler={self.obj_scaler} constraint_scaler={self.con_scaler} offsets={self.offsets} "
                f"scaler_reused_after_another_config={self.reuse} evaluation_fails={self.fail} variable_bounds={self.var_bounds} scales={self.scale_form}")

    def inputs(self, env):
        N, L, C, K = self.N, self.L, self.C, self.K
        x = env.reals("x", N, lo=-10, hi=10)
        if self.var_bounds == "none":
            lb = np.array([-INF] * N, dtype=object)
            ub = np.array([INF] * N, dtype=object)
        else:
            lb = env.reals("lb", N, lo=-10, hi=10)
            ub = env.reals("ub", N, lo=-10, hi=10)
            for j in range(N):
                env.assume(ub[j] - lb[j] >= Fraction(1, 10))
                env.assume(And(x[j] >= lb[j], x[j] <= ub[j]))
        s_arg = None
        if self.scale_form == "size1":
            s_arg = env.reals("s", 1, lo=Fraction(1, 10), hi=10)
            s = np.array([s_arg[0]] * N, dtype=object)
        elif self.scale_form in ("none", "absent"):   # an offsets-only scaler / no variable transform at all
            s = np.array([SR(Fraction(1))] * N, dtype=object)
        else:
            s = env.reals("s", N, lo=Fraction(1, 10), hi=10)
        o = env.reals("o", N, lo=-5, hi=5) if self.offsets else None
        m = env.reals("m", N, lo=Fraction(1, 100), hi=2)
        z = env.reals("z", (1, 1, N), lo=-5, hi=5)                     # the perturbation sample
        A = env.reals("A", (L, N), lo=-5, hi=5) if L else None
        A0 = env.reals("A0", (L, N), lo=-5, hi=5) if (L and self.reuse) else None   # rows of an earlier configuration
        if L:
            for i in range(L):
                env.assume(Or(*[Not(A[i, j] == 0) for j in range(N)]))   # non-zero rows
        llo, lhi = self.bounds(env, "lb_lin", self.lkinds) if L else ([], [])
        nlo, nhi = self.bounds(env, "lb_nl", self.nkinds) if C else ([], [])
        os_ = env.reals("os", K, lo=Fraction(1, 10), hi=10) if self.obj_scaler else None
        cs = env.reals("cs", C, lo=Fraction(1, 10), hi=10) if self.con_scaler else None
        f = env.reals("f", (1, K), lo=-100, hi=100)                     # what the evaluator returns at x (user domain)
        g = env.reals("g", (1, C), lo=-100, hi=100) if C else None
        if A0 is not None:
            for i in range(L):
                env.assume(Or(*[Not(A0[i, j] == 0) for j in range(N)]))
        if self.fail:
            f[0, 0] = SR(f[0, 0].v, True)     # the evaluation fails: no function values, bound/linear differences remain
        return dict(s_arg=s_arg, lb=lb, ub=ub, x=x, s=s, o=o, m=m, z=z, A=A, A0=A0, llo=llo, lhi=lhi, nlo=nlo, nhi=nhi, os=os_, cs=cs, f=f, g=g)

    @staticmethod
    def bounds(env, name, kinds):
        lo, hi = [], []
        for i, k in enumerate(kinds):
            a = env.real(f"{name}_lo_{i}", -20, 20) if k in ("both", "lower", "eq") else -INF
            if k == "eq":
                b = a
            elif k in ("both", "upper"):
                b = env.real(f"{name}_hi_{i}", -20, 20)
            else:
                b = INF
            if k == "both":
                env.assume(b - a >= Fraction(1, 10))
            lo.append(a), hi.append(b)
        return lo, hi

    # ---- build a configuration the way validation does, with or without transforms
    def build(self, env, inp, transforms):
        from ropt.config.enopt import LinearConstraintsConfig, NonlinearConstraintsConfig, VariablesConfig
        from ropt.enums import PerturbationType

        obj = lambda seq: np.array(list(seq), dtype=object)  # noqa: E731
        cfg = clone_config(self.cfg0)
        v = VariablesConfig.model_construct(
            initial_values=env.arr(inp["x"], False), lower_bounds=env.arr(inp["lb"], False), upper_bounds=env.arr(inp["ub"], False),
            types=None, mask=None)
        v = VariablesConfig._broadcast_and_transform(v, Info(transforms))
        cfg.__dict__["variables"] = v
        if self.C:
            nl = NonlinearConstraintsConfig.model_construct(lower_bounds=env.arr(obj(inp["nlo"]), False), upper_bounds=env.arr(obj(inp["nhi"]), False),
                                                            realization_filters=None, function_estimators=None)
            cfg.__dict__["nonlinear_constraints"] = NonlinearConstraintsConfig._broadcast_and_check(nl, Info(transforms))
        if self.L:
            lc = LinearConstraintsConfig.model_construct(coefficients=env.arr(inp["A"], False), lower_bounds=env.arr(obj(inp["llo"]), False),
                                                         upper_bounds=env.arr(obj(inp["lhi"]), False))
            cfg.__dict__["linear_constraints"] = lc.apply_transformation(v, transforms)
        types = np.array([PerturbationType.ABSOLUTE if t == "absolute" else PerturbationType.RELATIVE for t in self.ptypes], dtype=np.ubyte)
        types.setflags(write=False)
        raw = cfg.gradient.model_copy(update={"perturbation_magnitudes": env.arr(inp["m"], False), "perturbation_types": types})
        cfg.__dict__["gradient"] = raw.fix_perturbations(v, transforms)
        return cfg

    def one_side(self, env, inp, transforms):
        from ropt.ensemble_evaluator import EnsembleEvaluator
        from ropt.evaluator import EvaluatorResult

        cfg = self.build(env, inp, transforms)
        pm = ens.stub_manager()
        ens.set_samples(lambda s_: env.arr(inp["z"]))
        calls = []

        def evaluator(variables, context):
            calls.append(variables)
            n = variables.shape[0]
            f = np.empty((n, self.K), dtype=object)
            g = np.empty((n, self.C), dtype=object)
            for i in range(n):
                for k in range(self.K):
                    f[i, k] = inp["f"][0, k] if i == 0 else SR(Fraction(0), True)   # perturbed rows: NaN (requests only)
                for k in range(self.C):
                    g[i, k] = inp["g"][0, k] if i == 0 else SR(Fraction(0), True)
            return EvaluatorResult(objectives=env.arr(f), constraints=env.arr(g) if self.C else None)

        ee = EnsembleEvaluator(cfg, transforms, evaluator, pm)
        x_opt = cfg.variables.initial_values
        fr, gr = ee.calculate(env.arr(np.asarray(vals(x_opt), dtype=object)), compute_functions=True, compute_gradients=True)
        user = fr.transform_from_optimizer(transforms) if transforms is not None else fr
        return {"cfg": cfg, "calls": calls, "fr": fr, "user": user, "pv": gr.evaluations.perturbed_variables}

    def run(self, env, inp):
        tr = ens.make_transforms(
            var_scales=None if self.scale_form in ("none", "absent") else env.arr(inp["s"] if inp["s_arg"] is None else inp["s_arg"]), var_offsets=env.arr(inp["o"]) if self.offsets else None,
            obj_scales=env.arr(inp["os"]) if self.obj_scaler else None,
            con_scales=env.arr(inp["cs"]) if self.con_scaler else None)
        a = self.one_side(env, inp, None)
        if self.reuse:
            # the same transforms object served another configuration (other linear rows) before this one
            first = dict(inp)
            first["A"] = inp["A0"]
            self.build(env, first, tr)
        b = self.one_side(env, inp, tr)
        # to/from identity on an arbitrary vector
        v = env.arr(inp["z"][0, 0])
        ident = tr.variables.from_optimizer(tr.variables.to_optimizer(v)) if tr.variables is not None else v
        return {"a": a, "b": b, "ident": ident}

    def props(self, env, inp, oc):
        if not oc.ok:
            return [("no_internal_exception:" + type(oc.exc).__name__, SB(False))]
        a, b = oc.value["a"], oc.value["b"]
        N = self.N
        props = []

        def same_arrays(tag, xa, xb):
            xa, xb = vals(xa), vals(xb)
            if xa is None and xb is None:
                return
            if xa is None or xb is None:
                props.append((f"{tag}.reported_on_both_sides", SB(False)))
                return
            xa, xb = np.asarray(xa, dtype=object), np.asarray(xb, dtype=object)
            if xa.shape != xb.shape:
                props.append((f"{tag}.same_shape", SB(False)))
                return
            for idx in np.ndindex(xa.shape):
                p, q = xa[idx], xb[idx]
                if p.inf or q.inf:
                    props.append((f"{tag}{list(idx)}", SB(p.inf == q.inf)))
                else:
                    props.append((f"{tag}{list(idx)}", Or(And(isnan(p), isnan(q)), close(p, q))))

        # 1. the evaluator sees the same user-domain vectors (unperturbed and perturbed)
        same_arrays("evaluator_rows", a["calls"][0], b["calls"][0])
        # 2. user-domain results
        ua, ub = a["user"], b["user"]
        same_arrays("results.variables", ua.evaluations.variables, ub.evaluations.variables)
        same_arrays("results.realization_objectives", ua.evaluations.objectives, ub.evaluations.objectives)
        same_arrays("results.realization_constraints", ua.evaluations.constraints, ub.evaluations.constraints)
        if ua.functions is None or ub.functions is None:
            props.append(("results.functions_missing_on_both_sides", SB((ua.functions is None) == (ub.functions is None))))
        else:
            same_arrays("results.objectives", ua.functions.objectives, ub.functions.objectives)
            same_arrays("results.constraints", ua.functions.constraints, ub.functions.constraints)
        ia, ib = ua.constraint_info, ub.constraint_info
        if (ia is None) != (ib is None):
            props.append(("constraint_info.reported_on_both_sides", SB(False)))
        elif ia is not None:
            for nm in ("bound_lower", "bound_upper", "bound_violation", "linear_lower", "linear_upper", "linear_violation",
                       "nonlinear_lower", "nonlinear_upper", "nonlinear_violation"):
                same_arrays(f"constraint_info.{nm}", getattr(ia, nm), getattr(ib, nm))
        # 3. feasibility of the point in both domains (transformed configuration vs user configuration)
        cb = b["cfg"]
        xo = np.asarray(vals(cb.variables.initial_values), dtype=object)
        lo, uo = np.asarray(vals(cb.variables.lower_bounds), dtype=object), np.asarray(vals(cb.variables.upper_bounds), dtype=object)
        # an arbitrary user point y and its image
        y = [inp["z"][0, 0, j] for j in range(N)]
        yo = [(y[j] - (inp["o"][j] if self.offsets else ZERO)) / inp["s"][j] for j in range(N)]
        for j in range(N):
            if self.var_bounds == "none":
                props.append((f"bounds{j}.stay_infinite", SB(lo[j].inf == -1 and uo[j].inf == 1)))
                continue
            props.append((f"bounds{j}.feasible_iff_image_feasible",
                          Iff(And(y[j] >= inp["lb"][j], y[j] <= inp["ub"][j]), And(yo[j] >= lo[j], yo[j] <= uo[j]))))
        if self.L:
            Ao = np.asarray(vals(cb.linear_constraints.coefficients), dtype=object)
            lo_l, hi_l = np.asarray(vals(cb.linear_constraints.lower_bounds), dtype=object), np.asarray(vals(cb.linear_constraints.upper_bounds), dtype=object)
            finite = all(x.inf == 0 for x in Ao.flat)
            props.append(("linear.transformed_coefficients_are_finite", And(SB(finite), *[Not(isnan(x)) for x in Ao.flat])))
            for i in range(self.L if finite else 0):
                vu = ssum([inp["A"][i, j] * y[j] for j in range(N)])
                vo = ssum([Ao[i, j] * yo[j] for j in range(N)])
                props.append((f"linear{i}.feasible_iff_image_feasible",
                              Iff(And(vu >= inp["llo"][i], vu <= inp["lhi"][i]), And(vo >= lo_l[i], vo <= hi_l[i]))))
        # 4. to_optimizer / from_optimizer is the identity
        same_arrays("to_from_identity", np.array([inp["z"][0, 0, j] for j in range(N)], dtype=object), oc.value["ident"])
        return props

    def observe(self, env, inp, oc):
        return {}


class FullValidationCase(Case):
    """The public route: EnOptConfig.model_validate(<plain dict>, context=transforms).  Whatever the dict leaves to
    defaults (no `gradient` section at all, an empty one) must end up in the optimizer domain like explicit settings."""

    family = "transforms/validation-route"

    def __init__(self, cid, gradient="absent"):
        self.id, self.gradient = cid, gradient
        self.x0, self.lb, self.ub = [0.5, -1.0], [-2.0, -3.0], [4.0, 1.0]

    def describe(self):
        return f"model_validate(dict, context=transforms), gradient section: {self.gradient}"

    def inputs(self, env):
        return {"s": env.reals("s", 2, lo=Fraction(1, 10), hi=10), "o": env.reals("o", 2, lo=-5, hi=5)}

    def run(self, env, inp):
        from ropt.config.enopt import EnOptConfig

        d = {"variables": {"initial_values": list(self.x0), "lower_bounds": list(self.lb), "upper_bounds": list(self.ub)}}
        if self.gradient == "empty":
            d["gradient"] = {}
        elif self.gradient == "explicit":
            d["gradient"] = {"perturbation_magnitudes": 0.005}
        tr = ens.make_transforms(var_scales=env.arr(inp["s"]), var_offsets=env.arr(inp["o"]))
        return EnOptConfig.model_validate(d, context=tr)

    def props(self, env, inp, oc):
        if not oc.ok:
            return [("no_internal_exception:" + type(oc.exc).__name__, SB(False))]
        cfg = oc.value
        s_, o_ = inp["s"], inp["o"]
        props = []
        m = np.asarray(vals(cfg.gradient.perturbation_magnitudes), dtype=object)
        props.append(("magnitudes.one_per_variable", SB(m.shape == (2,))))
        x = np.asarray(vals(cfg.variables.initial_values), dtype=object)
        lo, hi = np.asarray(vals(cfg.variables.lower_bounds), dtype=object), np.asarray(vals(cfg.variables.upper_bounds), dtype=object)
        for j in range(2):
            if m.shape == (2,):
                props.append((f"v{j}.default_magnitude_in_optimizer_units", close(m[j] * s_[j], SR(Fraction(5, 1000)))))
            props.append((f"v{j}.initial_value_in_optimizer_units", close(x[j] * s_[j] + o_[j], SR(Fraction(self.x0[j])))))
            props.append((f"v{j}.bounds_in_optimizer_units", And(close(lo[j] * s_[j] + o_[j], SR(Fraction(self.lb[j]))),
                                                                  close(hi[j] * s_[j] + o_[j], SR(Fraction(self.ub[j]))))))
        return props

    def observe(self, env, inp, oc):
        return {}


class BasicRouteCase(Case):
    """BasicOptimizer(<plain dict>, evaluator, transforms=...): the algorithm starts from the image of the configured
    initial values, so the evaluator is asked at the user's initial values, exactly as without transforms."""

    family = "transforms/basic-optimizer-route"

    def __init__(self, cid, prevalidated=False):
        self.id, self.prevalidated = cid, prevalidated
        self.x0 = [0.5, -1.0]

    def describe(self):
        return f"BasicOptimizer with transforms, configuration given as {'a validated EnOptConfig' if self.prevalidated else 'a plain dict'}"

    def inputs(self, env):
        return {"s": env.reals("s", 2, lo=Fraction(1, 10), hi=10), "o": env.reals("o", 2, lo=-5, hi=5)}

    def run(self, env, inp):
        from ropt.config.enopt import EnOptConfig
        from ropt.evaluator import EvaluatorResult
        from ropt.plan import BasicOptimizer

        d = {"variables": {"initial_values": list(self.x0), "lower_bounds": [-2.0, -3.0], "upper_bounds": [4.0, 1.0]},
             "optimizer": {"method": "symstub/x"}}
        tr = ens.make_transforms(var_scales=env.arr(inp["s"]), var_offsets=env.arr(inp["o"]))
        rows, seen = [], {}

        def evaluator(variables, context):
            rows.append(variables)
            n = variables.shape[0]
            return EvaluatorResult(objectives=env.const(np.ones((n, 1))))

        def script(opt, x0):
            seen["x0"] = x0
            opt.callback(x0, return_functions=True, return_gradients=False)

        pm = ens.stub_optimizer_manager()
        ens.set_script(script)
        cfg = EnOptConfig.model_validate(d, context=tr) if self.prevalidated else d
        bo = BasicOptimizer(cfg, evaluator, transforms=tr)
        bo._optimizer_context.plugin_manager = pm
        bo.run()
        return {"rows": rows, "x0_seen": seen.get("x0"), "reported": bo.variables}

    def props(self, env, inp, oc):
        if not oc.ok:
            return [("no_internal_exception:" + type(oc.exc).__name__, SB(False))]
        o = oc.value
        props = [("evaluator_was_called", SB(len(o["rows"]) >= 1))]
        if not o["rows"]:
            return props
        row = np.asarray(vals(o["rows"][0]), dtype=object)[0]
        xs = np.asarray(vals(o["x0_seen"]), dtype=object)
        for j in range(2):
            props.append((f"v{j}.evaluator_asked_at_the_users_initial_value", close(row[j], SR(Fraction(self.x0[j])))))
            props.append((f"v{j}.algorithm_starts_from_the_image_of_the_initial_value",
                          close(xs[j] * inp["s"][j] + inp["o"][j], SR(Fraction(self.x0[j])))))
        if o["reported"] is not None:
            rep = np.asarray(vals(o["reported"]), dtype=object)
            props += [(f"v{j}.reported_variables_in_user_domain", close(rep[j], SR(Fraction(self.x0[j])))) for j in range(2)]
        return props

    def observe(self, env, inp, oc):
        return {}


def build_cases(tier):
    cases = []
    k = 0

    def add(**kw):
        nonlocal k
        k += 1
        cases.append(TransformCase(f"c11-{k:03d}", **kw))

    add(N=1, L=0, C=0, ptypes=("absolute",), boundary=("truncate_both",), obj_scaler=True, con_scaler=False)
    add(N=1, L=0, C=1, ptypes=("relative",), boundary=("mirror_both",), nkinds=("both",))
    add(N=2, L=1, C=0, lkinds=("both",), obj_scaler=False)
    add(N=2, L=1, C=1, lkinds=("upper",), nkinds=("lower",), ptypes=("absolute", "relative"), boundary=("none", "truncate_both"))
    add(N=2, L=1, C=0, lkinds=("eq",), offsets=False)
    add(N=2, L=1, C=0, lkinds=("both",), obj_scaler=False, reuse=True)                       # scaler object used for two configurations
    add(N=2, L=1, C=1, lkinds=("upper",), nkinds=("both",), fail=True)                         # a failed evaluation still reports bound/linear differences
    add(N=2, L=1, C=0, lkinds=("both",), var_bounds="none", obj_scaler=False)                  # linear constraints without any finite variable bound
    add(N=2, L=1, C=0, lkinds=("both",), offsets=False, scale_form="size1", obj_scaler=False)  # one scale broadcast over the variables
    add(N=2, L=1, C=0, lkinds=("both",), scale_form="none", obj_scaler=False)                    # offsets only
    add(N=2, L=0, C=1, nkinds=("both",), scale_form="absent", obj_scaler=False)                  # a constraint transform and nothing else
    add(N=1, L=0, C=1, nkinds=("upper",), scale_form="absent", ptypes=("absolute",), boundary=("none",))   # objective + constraint transforms, no variable transform
    for g in ("absent", "empty", "explicit"):
        k += 1
        cases.append(FullValidationCase(f"c11-{k:03d}", g))
    for pre in (False, True):
        k += 1
        cases.append(BasicRouteCase(f"c11-{k:03d}", prevalidated=pre))
    if tier == "thorough":
        for lk in ("both", "lower", "upper", "eq"):
            add(N=2, L=1, C=1, lkinds=(lk,), nkinds=(lk,), ptypes=("relative", "absolute"), boundary=("mirror_both", "none"))
        add(N=2, L=2, C=1, lkinds=("both", "upper"), nkinds=("eq",))
        add(N=3, L=1, C=0, lkinds=("both",), ptypes=("absolute",) * 3, boundary=("truncate_both",) * 3)
    return cases


META = dict(
    bounds={"quick": "N<=2 variables, <=1 linear row, <=1 non-linear constraint, 1 objective, one realization and perturbation; scales in [0.1,10], offsets in [-5,5], bounds/points in [-10,10], samples in [-5,5]",
            "thorough": "every bound kind for the linear/non-linear constraint, 2 linear rows, N=3",
            "outside": "larger problems (non-linear real arithmetic with division); gradients (NumPy's SVD needs concrete perturbation matrices, see C02); rounding"},
    stubs=["objective / constraint transforms: the linear scalers users write (tests/test_optimizer.py)", "sampler plug-in `stub` returning the symbolic sample",
           "evaluator: symbolic user-domain values for the unperturbed row, NaN for perturbed rows (only the requested vectors are compared there)",
           "pydantic plumbing: validators called directly with the transforms as validation context"],
    assumptions=["positive scales; finite variable bounds with lb < ub; non-zero linear rows"],
    timeout_ms={"quick": 20000, "thorough": 60000},
)
