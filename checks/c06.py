"""C06 - evaluator requests are complete and correctly labelled; inactive entries are inert.

Encoded: _get_function_results / _get_gradient_results / _get_function_and_gradient_results,
_get_active_realizations, EvaluatorContext.__post_init__, _propagate_nan_values, the _calculate_* methods of
EnsembleEvaluator, _immutable_copy, VariableScaler.from_optimizer.
Symbolic: x (optimizer domain), variable scales/offsets, objective/constraint scale factors, every number the
evaluator returns (a distinct symbol per call, row and column), realization weights (zero pattern enumerated),
garbage in inactive entries (second run of a self-composition).
"""
from __future__ import annotations

from fractions import Fraction

import numpy as np

from symnp import SymArray
from .common import And, Case, Implies, Not, Or, SB, SR, all_of, clone_config, close, exact, inject, isnan, ite, ssum, vals
from . import ens
from .c01 import cvar_filter, sort_filter

ZERO = SR(Fraction(0))


class RequestCase(Case):
    family = "requests"

    def __init__(self, cid, *, mode, R, P=2, K=1, C=0, B=1, N=2, zero=(), var_scaler=False, obj_scaler=False,
                 con_scaler=False, filters=(), obj_filt=None, memo=False, nan_row=None, readonly=False, rounds=1, con_filt=None):
        """mode: functions | both | split (functions, then a gradient-only request at the same point)"""
        self.id = cid
        self.mode, self.R, self.P, self.K, self.C, self.B, self.N = mode, R, P, K, C, B, N
        self.zero = tuple(zero)
        self.var_scaler, self.obj_scaler, self.con_scaler = var_scaler, obj_scaler, con_scaler
        self.filters, self.obj_filt, self.memo, self.nan_row = filters, obj_filt, memo, nan_row
        self.rounds = rounds       # split mode: (functions, gradient) pairs at successive points on one evaluator object
        assert rounds == 1 or (mode == "split" and not memo)
        self.readonly = readonly   # the evaluator hands out read-only arrays (views of buffers it refills later)
        self.family = "requests/" + ("memoizing-evaluator" if memo else mode)
        rng = np.random.default_rng([R, P, N, 3])
        self.design = np.round(rng.uniform(-1, 1, (R, P, N)) * 64) / 64
        self.cfg0 = ens.ensemble_config(N=N, R=R, P=P, K=K, C=C, rmin=1, pmin=1, filters=filters, obj_filt=obj_filt,
                                        con_filt=con_filt, x0=[0.25] * N)
        self.ncalls = {"functions": 1, "both": 1, "split": 2 * rounds}[mode] * (2 if memo else 1)

    def describe(self):
        return (f"mode={self.mode} R={self.R} P={self.P} K={self.K} C={self.C} B={self.B} zero_weights={self.zero} "
                f"scalers(v,o,c)=({self.var_scaler},{self.obj_scaler},{self.con_scaler}) filters={[f['method'] for f in self.filters]} memo={self.memo} rounds={self.rounds}")

    def rows_of_call(self, c):
        R, P, B = self.R, self.P, self.B
        if self.mode == "functions":
            return B * R
        if self.mode == "both":
            return R + R * P
        # split: even calls are function requests, odd ones gradient requests
        return R if c % 2 == 0 else R * P

    def inputs(self, env):
        R, N, K, C = self.R, self.N, self.K, self.C
        F = K + C
        w = env.reals("w", R, lo=0, hi=1)
        for r in range(R):
            env.assume(w[r] == 0 if r in self.zero else w[r] > 0)
        env.assume(ssum(list(w)) == 1)
        if self.mode == "functions":
            x = env.reals("x", (self.B, N), lo=-10, hi=10)
        else:  # the SVD needs concrete perturbation differences: x concrete, transforms still symbolic
            x = np.array([[SR(Fraction(3 * j + 1 + 2 * t, 8)) for j in range(N)] for t in range(self.rounds)], dtype=object)
        ncalls = self.ncalls if not self.memo else self.ncalls // 2
        val = [env.reals(f"e{c}", (self.rows_of_call(c), F), lo=-100, hi=100) for c in range(ncalls)]
        alt = [env.reals(f"h{c}", (self.rows_of_call(c), F), lo=-100, hi=100) for c in range(ncalls)]
        if self.nan_row is not None:
            c, i, f = self.nan_row
            val[c][i, f] = SR(val[c][i, f].v, env.flag("nanflag").t)
            alt[c][i, f] = SR(alt[c][i, f].v, val[c][i, f].nan)
        vs = env.reals("vs", N, lo=Fraction(1, 10), hi=10) if self.var_scaler else None
        vo = env.reals("vo", N, lo=-5, hi=5) if self.var_scaler else None
        os_ = env.reals("os", K, lo=Fraction(1, 10), hi=10) if self.obj_scaler else None
        cs = env.reals("cs", C, lo=Fraction(1, 10), hi=10) if self.con_scaler and C else None
        return {"w": w, "x": x, "val": val, "alt": alt, "vs": vs, "vo": vo, "os": os_, "cs": cs}

    def _scenario(self, env, inp, garbage):
        from ropt.ensemble_evaluator import EnsembleEvaluator
        from ropt.evaluator import EvaluatorResult

        K = self.K
        cfg = clone_config(self.cfg0)
        inject(cfg.realizations, weights=env.arr(inp["w"], writeable=False))
        tr = None
        if self.var_scaler or self.obj_scaler or (self.con_scaler and self.C):
            tr = ens.make_transforms(
                var_scales=env.arr(inp["vs"]) if self.var_scaler else None,
                var_offsets=env.arr(inp["vo"]) if self.var_scaler else None,
                obj_scales=env.arr(inp["os"]) if self.obj_scaler else None,
                con_scales=env.arr(inp["cs"]) if (self.con_scaler and self.C) else None,
            )
        pm = ens.stub_manager()
        ens.set_samples(lambda s: env.const(self.design))
        calls = []
        memo = {}

        def evaluator(variables, context):
            c = len(calls)
            src = c if not self.memo else c % (self.ncalls // 2)
            if self.memo and src in memo:
                res = memo[src]
                calls.append({"variables": variables, "context": context, "result": res, "given": memo[("g", src)]})
                return res
            v, a = inp["val"][src], inp["alt"][src]
            out = np.empty(v.shape, dtype=object)
            ao, ac = context.active_objectives, context.active_constraints
            for i in range(v.shape[0]):
                r = int(context.realizations[i])
                for f in range(v.shape[1]):
                    act = True
                    if f < K and ao is not None:
                        act = bool(ao[f, r])
                    elif f >= K and ac is not None:
                        act = bool(ac[f - K, r])
                    out[i, f] = v[i, f] if (act or not garbage) else a[i, f]
            objs = env.arr(out[:, :K], writeable=not self.readonly)
            cons = env.arr(out[:, K:], writeable=not self.readonly) if self.C else None
            if self.readonly and not env.sym:
                objs.setflags(write=False)
                if cons is not None:
                    cons.setflags(write=False)
            import numpy as real_np
            info = {"tag": real_np.arange(v.shape[0], dtype=float) + 100.0 * (src + 1)}   # per-row bookkeeping of the evaluator
            res = EvaluatorResult(objectives=objs, constraints=cons, evaluation_info=info)
            given = {"objectives": objs, "constraints": cons, "snap_o": snapshot(objs), "snap_c": snapshot(cons), "out": out,
                     "info": info["tag"], "info_copy": info["tag"].copy()}
            if self.memo:
                memo[src], memo[("g", src)] = res, given
            calls.append({"variables": variables, "context": context, "result": res, "given": given})
            return res

        ee = EnsembleEvaluator(cfg, tr, evaluator, pm)
        x = env.arr(inp["x"] if self.B > 1 else inp["x"][0])
        results = []
        reps = 2 if self.memo else 1
        for _ in range(reps):
            if self.mode == "functions":
                results.append(ee.calculate(x, compute_functions=True, compute_gradients=False))
            elif self.mode == "both":
                results.append(ee.calculate(x, compute_functions=True, compute_gradients=True))
            else:
                for t in range(self.rounds):
                    xt = env.arr(inp["x"][t])
                    results.append(ee.calculate(xt, compute_functions=True, compute_gradients=False))
                    results.append(ee.calculate(xt, compute_functions=False, compute_gradients=True))
        # what a plan step reports to the user: every result transformed back from the optimizer domain
        user = [tuple(item.transform_from_optimizer(tr) for item in res) for res in results] if tr is not None else None
        return {"calls": calls, "results": results, "user_results": user}

    def run(self, env, inp):
        a = self._scenario(env, inp, garbage=False)
        b = self._scenario(env, inp, garbage=True)
        return {"a": a, "b": b}

    # ---- the property
    def props(self, env, inp, oc):
        if not oc.ok:
            return [("no_internal_exception:" + type(oc.exc).__name__, SB(False))]
        R, P, K, C, B, N = self.R, self.P, self.K, self.C, self.B, self.N
        w = list(inp["w"])
        a, b = oc.value["a"], oc.value["b"]
        props = []
        xs = inp["x"]

        def user(xrow, j):
            v = xrow[j]
            if self.var_scaler:
                v = v * inp["vs"][j] + inp["vo"][j]
            return v

        for ci, call in enumerate(a["calls"]):
            ctx, req = call["context"], np.asarray(vals(call["variables"]), dtype=object)
            kind = "f" if self.mode == "functions" else ("fg" if self.mode == "both" else ("f" if ci % 2 == 0 else "g"))
            # expected labels
            if kind == "f":
                exp_r = [r for _ in range(B) for r in range(R)]
                exp_p = None
            elif kind == "g":
                exp_r = [r for r in range(R) for _ in range(P)]
                exp_p = [p for _ in range(R) for p in range(P)]
            else:
                exp_r = list(range(R)) + [r for r in range(R) for _ in range(P)]
                exp_p = [-1] * R + [p for _ in range(R) for p in range(P)]
            props.append((f"call{ci}.realization_labels", SB(list(map(int, ctx.realizations)) == exp_r)))
            props.append((f"call{ci}.perturbation_labels",
                          SB((ctx.perturbations is None and exp_p is None) or
                             (ctx.perturbations is not None and exp_p is not None and list(map(int, ctx.perturbations)) == exp_p))))
            props.append((f"call{ci}.row_count", SB(req.shape == (len(exp_r), N))))
            if req.shape != (len(exp_r), N):
                continue
            # unperturbed rows carry the user-domain image of the requested vector
            for i in range(len(exp_r)):
                if exp_p is None or exp_p[i] < 0:
                    bidx = i // R if self.mode == "functions" else ((ci // 2) % self.rounds if self.mode == "split" else 0)
                    props.append((f"call{ci}.row{i}.user_domain_variables",
                                  all_of(close(req[i, j], user(xs[bidx], j)) for j in range(N))))
            # perturbed rows: user-domain image of the reported perturbed vector
            # activity: inactive only if the weight is zero
            for nm, act, n in (("objective", ctx.active_objectives, K), ("constraint", ctx.active_constraints, C)):
                if act is None and (kind != "g" or n == 0):
                    continue
                # no flags at all = every entry active
                av = np.asarray(vals(act), dtype=object) if act is not None else np.full((n, R), SB(True), dtype=object)
                for f in range(n):
                    for r in range(R):
                        rowsw = self.weights_in_force(a, ci, nm, f)
                        wr = w[r] if rowsw is None else rowsw[r]
                        props.append((f"call{ci}.{nm}{f}.r{r}.inactive_only_if_zero_weight", Implies(Not(av[f, r]), exact(wr, ZERO))))
                        if kind == "g":
                            props.append((f"call{ci}.{nm}{f}.r{r}.zero_weight_is_inactive_for_gradient", Implies(exact(wr, ZERO), Not(av[f, r]))))
        # reported per-realization values are the evaluator's values for the row with that label:
        # in the optimizer domain (scaled by the user's transforms) and, transformed back, in the user domain
        ident = lambda k, v: v  # noqa: E731
        scale_o = (lambda k, v: v / inp["os"][k]) if self.obj_scaler else ident
        scale_c = (lambda k, v: v / inp["cs"][k]) if (self.con_scaler and C) else ident
        domains = [("res", a["results"], scale_o, scale_c, False)]
        if a["user_results"] is not None:
            domains.append(("user", a["user_results"], ident, ident, True))
        for dom, results, so_, sc_, is_user in domains:
            for ri, res in enumerate(results):
                for item in res:
                    ev = item.evaluations
                    call = a["calls"][min(ri, len(a["calls"]) - 1)] if self.mode != "split" else a["calls"][ri]
                    given = call["given"]["out"]
                    req = np.asarray(vals(call["variables"]), dtype=object)
                    if hasattr(ev, "perturbed_objectives"):
                        po = np.asarray(vals(ev.perturbed_objectives), dtype=object)
                        pc = np.asarray(vals(ev.perturbed_constraints), dtype=object) if ev.perturbed_constraints is not None else None
                        props.append((f"{dom}{ri}.perturbed_constraints_reported", SB((pc is not None) == (C > 0))))
                        off = R if self.mode == "both" else 0
                        pvu = np.asarray(vals(ev.perturbed_variables), dtype=object) if is_user else None
                        for r in range(R):
                            for p in range(P):
                                row = given[off + r * P + p]
                                anynan = Or(*[isnan(x) for x in row])
                                for k in range(K):
                                    props.append((f"{dom}{ri}.perturbed_objective[{r},{p},{k}].is_value_of_labelled_row",
                                                  Or(anynan, close(po[r, p, k], so_(k, row[k])))))
                                if pc is not None:
                                    for k in range(C):
                                        props.append((f"{dom}{ri}.perturbed_constraint[{r},{p},{k}].is_value_of_labelled_row",
                                                      Or(anynan, close(pc[r, p, k], sc_(k, row[K + k])))))
                                props.append((f"{dom}{ri}.perturbed_row[{r},{p}].nan_fails_whole_row", Implies(anynan, all_of(isnan(po[r, p, k]) for k in range(K)))))
                                if is_user:   # the reported user-domain perturbed vector is the row the evaluator was asked for
                                    props.append((f"{dom}{ri}.perturbed_variables[{r},{p}].is_the_requested_row",
                                                  all_of(close(pvu[r, p, j], req[off + r * P + p, j]) for j in range(N))))
                    else:
                        o = np.asarray(vals(ev.objectives), dtype=object)
                        cc = np.asarray(vals(ev.constraints), dtype=object) if ev.constraints is not None else None
                        props.append((f"{dom}{ri}.constraints_reported", SB((cc is not None) == (C > 0))))
                        bidx = next(i for i, it in enumerate(res) if it is item) if self.mode == "functions" else 0
                        for r in range(R):
                            row = given[bidx * R + r]
                            anynan = Or(*[isnan(x) for x in row])
                            for k in range(K):
                                props.append((f"{dom}{ri}.b{bidx}.objective[{r},{k}].is_value_of_labelled_row",
                                              Or(anynan, close(o[r, k], so_(k, row[k])))))
                            # a failed row is reported as failed, never as a number the evaluator did not return
                            props.append((f"{dom}{ri}.b{bidx}.row[{r}].nan_fails_whole_row", Implies(anynan, all_of(isnan(o[r, k]) for k in range(K)))))
                            if cc is not None:
                                for k in range(C):
                                    props.append((f"{dom}{ri}.b{bidx}.constraint[{r},{k}].is_value_of_labelled_row",
                                                  Or(anynan, close(cc[r, k], sc_(k, row[K + k])))))
                        if is_user:
                            vu = np.asarray(vals(ev.variables), dtype=object)
                            props.append((f"{dom}{ri}.b{bidx}.variables.is_the_requested_row",
                                          all_of(close(vu[j], req[bidx * R, j]) for j in range(N))))
                    # delivered arrays are write-protected snapshots
                    for nm in ("variables", "objectives", "constraints", "perturbed_variables", "perturbed_objectives", "perturbed_constraints"):
                        arr = getattr(ev, nm, None)
                        if arr is not None:
                            props.append((f"{dom}{ri}.{nm}.write_protected", SB(not arr.flags.writeable)))
        # the evaluator's own object and arrays are untouched
        for ci, call in enumerate(a["calls"]):
            g, res = call["given"], call["result"]
            props.append((f"call{ci}.evaluator_result_keeps_its_arrays",
                          SB(res.objectives is g["objectives"] and res.constraints is g["constraints"])))
            props.append((f"call{ci}.evaluator_objectives_unmodified", same_snapshot(g["objectives"], g["snap_o"])))
            if g["constraints"] is not None:
                props.append((f"call{ci}.evaluator_constraints_unmodified", same_snapshot(g["constraints"], g["snap_c"])))
        # delivered results are snapshots: they never share memory with what the evaluator returned
        def raw(x):
            return x.a if isinstance(x, SymArray) else np.asarray(x)
        for ri, res in enumerate(a["results"]):
            for item in res:
                ev = item.evaluations
                for nm in ("objectives", "constraints", "perturbed_objectives", "perturbed_constraints"):
                    arr = getattr(ev, nm, None)
                    if arr is None:
                        continue
                    shared = any(np.shares_memory(raw(arr), raw(call["given"][k])) for call in a["calls"]
                                 for k in ("objectives", "constraints") if call["given"][k] is not None)
                    props.append((f"res{ri}.{nm}.does_not_alias_evaluator_arrays", SB(not shared)))
        # evaluation info is part of the delivered snapshot too: a write-protected copy of the labelled rows
        import numpy as real_np
        for ri, res in enumerate(a["results"]):
            for item in res:
                tag = item.evaluations.evaluation_info.get("tag") if item.evaluations.evaluation_info else None
                props.append((f"res{ri}.evaluation_info.delivered", SB(tag is not None)))
                if tag is None:
                    continue
                tag = real_np.asarray(tag)
                shared = any(real_np.shares_memory(tag, call["given"]["info"]) for call in a["calls"])
                props.append((f"res{ri}.evaluation_info.write_protected_copy", SB(not tag.flags.writeable and not shared)))
                known = real_np.concatenate([call["given"]["info_copy"] for call in a["calls"]])
                props.append((f"res{ri}.evaluation_info.values_are_the_evaluators", SB(bool(real_np.isin(tag.ravel(), known).all()))))
        # memoising evaluator: the second round reports what the first did
        if self.memo:
            half = len(a["results"]) // 2
            for i in range(half):
                props += equal_results(f"memo.round2_equals_round1.res{i}", a["results"][i], a["results"][half + i])
        # garbage in inactive entries never influences functions or gradients
        for i, (ra, rb) in enumerate(zip(a["results"], b["results"])):
            props += equal_results(f"garbage_invariance.res{i}", ra, rb)
        return props

    def weights_in_force(self, scen, ci, nm, f):
        """For a gradient-only request the weights come from the cached function result."""
        if self.mode == "split" and ci % 2 == 1:
            fr = scen["results"][ci - 1][0]
            rows = fr.realizations.objective_weights if nm == "objective" else fr.realizations.constraint_weights
            if rows is not None:
                return list(np.asarray(vals(rows), dtype=object)[f])
        return None

    def observe(self, env, inp, oc):
        if not oc.ok:
            return {}
        out = {}
        for i, res in enumerate(oc.value["a"]["results"]):
            for j, item in enumerate(res):
                if getattr(item, "functions", None) is not None:
                    out[f"f{i}_{j}"] = item.functions.objectives
                if getattr(item, "gradients", None) is not None:
                    out[f"g{i}_{j}"] = item.gradients.objectives
        return out


def snapshot(arr):
    if arr is None:
        return None
    a = arr.a if isinstance(arr, SymArray) else np.asarray(arr)
    return [x for x in a.flat] if a.dtype == object else a.copy()


def same_snapshot(arr, snap):
    a = arr.a if isinstance(arr, SymArray) else np.asarray(arr)
    if a.dtype == object:
        return all_of(exact(x, y) for x, y in zip(a.flat, snap))
    return SB(bool(np.array_equal(a, snap, equal_nan=True)))


def equal_results(tag, ra, rb):
    props = []
    for j, (ia, ib) in enumerate(zip(ra, rb)):
        for fld, sub in (("functions", ("weighted_objective", "objectives", "constraints")),
                         ("gradients", ("weighted_objective", "objectives", "constraints"))):
            fa, fb = getattr(ia, fld, None), getattr(ib, fld, None)
            if fa is None and fb is None:
                continue
            if fa is None or fb is None:
                props.append((f"{tag}.{fld}.both_reported", SB(False)))
                continue
            for s in sub:
                xa, xb = vals(getattr(fa, s)), vals(getattr(fb, s))
                if xa is None:
                    continue
                xa, xb = np.asarray(xa, dtype=object), np.asarray(xb, dtype=object)
                props.append((f"{tag}.{fld}.{s}", all_of(Or(And(isnan(p), isnan(q)), close(p, q)) for p, q in zip(xa.flat, xb.flat))))
    return props


def build_cases(tier):
    cases = []
    k = 0

    def add(**kw):
        nonlocal k
        k += 1
        cases.append(RequestCase(f"c06-{k:03d}", **kw))

    add(mode="functions", R=2, K=2, C=1, B=2, var_scaler=True)
    add(mode="functions", R=3, K=1, zero=(1,))
    add(mode="both", R=2, P=2, K=1, C=1, zero=(0,), var_scaler=True)
    add(mode="split", R=2, P=2, K=1, zero=(1,))
    add(mode="split", R=3, P=1, K=2, filters=(sort_filter(0, 1),), obj_filt=(0, -1))
    # a constraint transform alone; the results a plan step reports are transformed back to the user domain
    add(mode="split", R=2, P=2, K=1, C=1, con_scaler=True)
    add(mode="both", R=2, P=1, K=1, C=1, con_scaler=True, zero=(1,))
    add(mode="both", R=2, P=1, K=2, obj_scaler=True)
    # the same evaluator object at two successive points: the filter's selection (and the active flags) may change
    add(mode="split", R=3, P=1, K=1, filters=(sort_filter(0, 1),), obj_filt=(0,), rounds=2)
    add(mode="functions", R=3, K=1, zero=(1,), filters=(sort_filter(0, 1),), obj_filt=(0,))   # a filter next to a configured zero weight
    add(mode="both", R=3, P=1, K=1, zero=(1,), filters=(sort_filter(0, 1),), obj_filt=(0,))        # the same through a combined request
    add(mode="functions", R=3, K=1, C=1, zero=(1,), filters=(sort_filter(0, 1, kind="constraint"),), con_filt=(0,))   # a filter assigned to a constraint only
    add(mode="split", R=3, P=1, K=1, zero=(1,), filters=(cvar_filter(0.5),), obj_filt=(0,))          # CVaR weights do not follow the configured ones
    add(mode="split", R=2, P=1, K=2, nan_row=(0, 1, 0))                                              # the cached function result keeps its failure
    add(mode="split", R=2, P=1, K=1, C=1, zero=(1,), filters=(sort_filter(0, 1),), obj_filt=(0,))   # objective filter only, constraints keep the configured weights
    add(mode="functions", R=2, K=1, C=1, nan_row=(0, 1, 1))
    add(mode="functions", R=2, K=1, C=1, nan_row=(0, 1, 0))
    add(mode="functions", R=2, K=1, C=1, readonly=True)
    add(mode="both", R=2, P=1, K=1, C=1, readonly=True)
    add(mode="split", R=2, P=1, K=1, readonly=True, zero=(1,))
    add(mode="both", R=2, P=1, K=1, C=1, nan_row=(0, 3, 1))
    # memoising evaluator with scalers (aliasing)
    add(mode="functions", R=2, K=2, obj_scaler=True, memo=True)
    add(mode="functions", R=2, K=1, C=1, con_scaler=True, memo=True, nan_row=(0, 0, 0))
    add(mode="both", R=2, P=1, K=1, C=1, obj_scaler=True, con_scaler=True, memo=True)
    add(mode="split", R=2, P=1, K=1, obj_scaler=True, memo=True)
    if tier == "thorough":
        add(mode="functions", R=3, K=2, C=1, B=2, zero=(0, 2), var_scaler=True, obj_scaler=True)
        add(mode="both", R=3, P=2, K=2, C=1, zero=(1,), var_scaler=True)
        add(mode="split", R=3, P=2, K=2, C=1, filters=(sort_filter(1, 2),), obj_filt=(0, 0))
        add(mode="split", R=3, P=2, K=1, zero=(2,), var_scaler=True, memo=True, obj_scaler=True)
        add(mode="both", R=2, P=2, K=2, C=1, nan_row=(0, 2, 2), con_scaler=True, memo=True)
    return cases


META = dict(
    bounds={"quick": "R<=3, P<=2, K<=2, C<=1, batch<=2, N=2; every evaluator number symbolic in [-100,100]; scales in [0.1,10]",
            "thorough": "R=3, P=2 with scalers, filters and memoisation combined",
            "outside": "larger shapes; evaluators that return views of one another"},
    stubs=["evaluator: returns a distinct symbol per (call, row, column); second run of each scenario replaces the values of inactive entries by other symbols; optionally memoises and returns the same EvaluatorResult object",
           "sampler plug-in `stub` (concrete design)"],
    assumptions=["objective/constraint transforms are the linear scalers users write (tests/test_optimizer.py)"],
    timeout_ms={"quick": 20000, "thorough": 60000},
)
