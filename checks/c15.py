"""C15 - event streams are well formed and aborts latch the plan, at every abort point.

Encoded: Plan.run_step/emit_event/abort/set_parent, OptimizerContext.call_observers, DefaultOptimizerStep.run
(incl. _signal_evaluation and _run_nested_plan), DefaultEvaluatorStep.run, EnsembleOptimizer._run_evaluations,
BasicOptimizer.set_abort_callback/run.
Symbolic: who raises the user abort (observer / handler / evaluator) and at which of its events or calls
(solver integers with small domains: the verdict coincides with exhaustive exploration of the bounded
schedule space - see DESIGN 3/C15); failure flags of the first evaluation.
"""
from __future__ import annotations

import numpy as np

from .common import And, Case, Implies, Not, Or, SB, SR, clone_config, ite
from . import ens
from .planrun import EvaluatorError, FlagEvaluator, Recorder, make_plan, user_abort

STEP_START = {"START_OPTIMIZER_STEP", "START_EVALUATOR_STEP"}
STEP_FIN = {"FINISHED_OPTIMIZER_STEP", "FINISHED_EVALUATOR_STEP"}


def analyse(events, chain_of, abort):
    """events: Recorder.events; chain_of[source] = ordered recipient labels for that source's events;
    abort = (who, event object id) or None.  -> dict of named booleans"""
    out = {}
    # group deliveries per emitted event (object identity), in order of first delivery
    order, deliv = [], {}
    for who, name, src, has, eid in events:
        if eid not in deliv:
            deliv[eid] = {"name": name, "src": src, "to": []}
            order.append(eid)
        deliv[eid]["to"].append(who)
    once, chain_ok = True, True
    for eid in order:
        d = deliv[eid]
        exp = chain_of.get(d["src"])
        if exp is None:
            chain_ok = False
            continue
        if len(set(d["to"])) != len(d["to"]):
            once = False
        if abort is not None and eid == abort[1]:
            # delivery stops at the recipient that raised
            if d["to"] != exp[: len(d["to"])] or d["to"][-1] != abort[0]:
                chain_ok = False
        elif d["to"] != exp:
            chain_ok = False
    out["delivered_exactly_once"] = once
    out["handlers_of_plan_chain_then_observers"] = chain_ok
    # bracketing per source
    brack = True
    per_src = {}
    for eid in order:
        per_src.setdefault(deliv[eid]["src"], []).append((deliv[eid]["name"], eid))
    for src, seq in per_src.items():
        # a step may run several times (a nested plan runs once per outer evaluation): one segment per run
        segs, cur = [], None
        for n, eid in seq:
            if n in STEP_START:
                if cur is not None:
                    brack = False  # previous run never finished
                cur = [(n, eid)]
            elif cur is None:
                brack = False      # event outside any step run
            else:
                cur.append((n, eid))
                if n in STEP_FIN:
                    segs.append(cur)
                    cur = None
        if cur is not None:
            brack = False
        for seg in segs:
            open_eval = None
            for n, eid in seg[1:-1]:
                if n == "START_EVALUATION":
                    if open_eval is not None:
                        brack = False
                    open_eval = eid
                elif n == "FINISHED_EVALUATION":
                    if open_eval is None:
                        brack = False
                    open_eval = None
                else:
                    brack = False
            if open_eval is not None and abort is None:
                brack = False  # an unmatched START_EVALUATION needs an abort at or inside that evaluation
    out["streams_are_bracketed"] = brack
    return out


class AbortCase(Case):
    family = "events"

    def __init__(self, cid, *, shape="single", who="observer", nevals=2, flags=False, maxf=None, rmin=1):
        """shape: single | two-steps | evaluator | nested-inner | nested-outer (where the abort is raised)"""
        self.id = cid
        self.shape, self.who, self.nevals, self.flags, self.maxf, self.rmin = shape, who, nevals, flags, maxf, rmin
        self.family = f"events/{shape}/{who}"
        rng = np.random.default_rng([3, 1, 31])
        self.design = np.round(rng.uniform(-1, 1, (2, 1, 2)) * 64) / 64
        self.cfg0 = ens.ensemble_config(N=2, R=2, P=1, rmin=rmin, x0=[0.25, -0.5],
                                        extra={"optimizer": {"method": "symstub/x", "max_functions": maxf}})
        self.cfg_inner = ens.ensemble_config(N=2, R=2, P=1, rmin=1, x0=[0.25, -0.5], mask=[False, True],
                                             extra={"optimizer": {"method": "symstub/x"}})
        # how many events / calls the aborting party sees in an undisturbed run (bound of the abort index)
        per_step = 2 + 2 * nevals
        steps = {"single": 1, "two-steps": 2, "evaluator": 1, "nested-inner": 1, "nested-outer": 1, "nested3": 1, "nested-reparented": 1, "nested-own-context": 1}[shape]
        if shape == "evaluator":
            self.nmax = 4 if who != "evaluator" else 1
        elif shape.startswith("nested"):
            inner_per_eval = 2 + 2 * 1
            self.nmax = (per_step + nevals * inner_per_eval) if who != "evaluator" else nevals * 2
        else:
            self.nmax = steps * per_step if who != "evaluator" else steps * nevals

    def describe(self):
        return f"shape={self.shape} abort_by={self.who} evaluations_per_step={self.nevals} failures={self.flags} rmin={self.rmin} max_functions={self.maxf} abort_index<= {self.nmax}"

    def inputs(self, env):
        inp = {"at": env.integer("abort_at", 0, self.nmax)}  # == nmax: no abort at all
        inp["flags"] = {(0, r, -1): env.flag(f"nan_{r}") for r in range(2)} if self.flags else {}
        return inp

    def run(self, env, inp):
        from ropt.exceptions import PlanAborted

        at = int(inp["at"])
        rec = Recorder()
        keep = []  # keep event objects alive so identities stay unique
        orig_note = rec.note

        def note(who, event):
            keep.append(event)
            orig_note(who, event)

        rec.note = note
        abort_target = {"observer": "observer", "handler": "h", "inner-handler": "hi", "evaluator": None}[self.who]
        if abort_target is not None and at < self.nmax:
            rec.raise_at = (abort_target, at, user_abort)
        ev = FlagEvaluator(env, inp["flags"], raise_at=at if (self.who == "evaluator" and at < self.nmax) else None, exc=user_abort)
        plan, _ = make_plan(ev, rec, handler_names=("h",))
        ens.set_samples(lambda s: env.const(self.design))
        pts = [np.array([0.25, -0.5]), np.array([0.5, 0.75]), np.array([-0.25, 0.0])]
        nevals = self.nevals
        inner_plans = []

        def script(opt, x0):
            n = 1 if opt.config is self.cfg_inner_run else nevals
            for e in range(n):
                x = env.const(pts[e])
                if opt.config.variables.mask is not None:
                    x = env.const(pts[e][np.asarray(opt.config.variables.mask)])
                opt.callback(x, return_functions=True, return_gradients=(e == 1))

        self.cfg_inner_run = clone_config(self.cfg_inner)
        ens.set_script(script)
        out = {"codes": [], "refused": None, "escaped": None}
        cfg = clone_config(self.cfg0)
        sources = {}
        try:
            if self.shape in ("single", "two-steps"):
                for i in range(1 if self.shape == "single" else 2):
                    step = plan.add_step("optimizer")
                    sources[step] = ["h", "observer"]
                    try:
                        out["codes"].append(plan.run_step(step, config=cfg))
                    except PlanAborted:
                        out["refused"] = i
                        break
            elif self.shape == "evaluator":
                step = plan.add_step("evaluator")
                sources[step] = ["h", "observer"]
                out["codes"].append(plan.run_step(step, config=cfg, variables=env.const(pts[0])))
            elif self.shape == "nested3":
                # three levels: the middle plan has no handlers of its own; events of the innermost step must
                # still reach the handlers of the outermost plan, then the observers
                middle, _ = make_plan(ev, rec, parent=plan, handler_names=())
                inner, _ = make_plan(ev, rec, parent=middle, handler_names=("hi",))
                inner_plans.append(inner)
                istep = inner.add_step("evaluator")
                sources[istep] = ["hi", "h", "observer"]
                out["codes"].append(inner.run_step(istep, config=cfg, variables=env.const(pts[0])))
                step = plan.add_step("evaluator")
                sources[step] = ["h", "observer"]
                if not inner.aborted:
                    out["codes"].append(plan.run_step(step, config=cfg, variables=env.const(pts[1])))
            else:
                ctor_parent = plan
                if self.shape == "nested-reparented":
                    # the inner plan was created under another plan and is now run as the nested plan of `plan`:
                    # its events belong to the chain it runs in, not to the one it was born in
                    from ropt.plan import Plan
                    ctor_parent = Plan(plan.optimizer_context)
                    ctor_parent.add_handler("verifrec/rec", recorder=rec, label="ho")
                if self.shape == "nested-own-context":
                    # the inner plan lives on its own context (the only way to give it another evaluator); its events
                    # still travel up the plan chain and end at the observers of the running (outermost) plan
                    from ropt.plan import OptimizerContext, Plan
                    inner = Plan(OptimizerContext(evaluator=ev, plugin_manager=plan.optimizer_context.plugin_manager), parent=plan)
                    inner.add_handler("verifrec/rec", recorder=rec, label="hi")
                else:
                    inner, _ = make_plan(ev, rec, parent=ctor_parent, handler_names=("hi",))
                inner_plans.append(inner)
                tracker = inner.add_handler("tracker")
                inner_step = inner.add_step("optimizer")
                inner.set(tracker, "sources", None) if False else None
                sources[inner_step] = ["hi", "h", "observer"]

                def inner_fn(pl, variables):
                    tr = pl.add_handler("tracker", sources={inner_step})
                    pl.run_step(inner_step, config=self.cfg_inner_run, variables=variables)
                    return pl.get(tr, "results")

                inner.add_function(inner_fn)
                step = plan.add_step("optimizer")
                sources[step] = ["h", "observer"]
                out["codes"].append(plan.run_step(step, config=cfg, nested_optimization=inner))
        except Exception as e:  # noqa: BLE001 - an escaping exception is an observation
            out["escaped"] = e
        # after an abort every further step is refused
        if plan.aborted and out["refused"] is None:
            try:
                plan.run_step(plan.add_step("evaluator"), config=cfg)
                out["refused_after"] = False
            except PlanAborted:
                out["refused_after"] = True
        out.update(events=list(rec.events), plan_aborted=plan.aborted, inner_aborted=[p.aborted for p in inner_plans],
                   sources=sources, at=at, raised=self._abort_happened(rec, ev, at), keep=keep)
        return out

    def _abort_happened(self, rec, ev, at):
        if at >= self.nmax:
            return None
        if self.who == "evaluator":
            return ("evaluator", None) if len(ev.calls) > at else None
        target = {"observer": "observer", "handler": "h", "inner-handler": "hi"}[self.who]
        seen = [e for e in rec.events if e[0] == target]
        return (target, seen[at][4]) if len(seen) > at else None

    def props(self, env, inp, oc):
        from ropt.enums import OptimizerExitCode as X

        if not oc.ok:
            return [("no_internal_exception:" + type(oc.exc).__name__, SB(False))]
        o = oc.value
        props = [("no_exception_escapes_the_plan", SB(o["escaped"] is None))]
        raised = o["raised"]
        res = analyse(o["events"], o["sources"], raised if raised and raised[1] is not None else None)
        # an evaluator abort happens inside an evaluation: an unmatched START_EVALUATION is allowed then
        if raised is not None and raised[1] is None:
            res2 = analyse(o["events"], o["sources"], ("evaluator", -1))
            res["streams_are_bracketed"] = res2["streams_are_bracketed"]
        for k, v in res.items():
            props.append((k, SB(bool(v))))
        if raised is not None:
            props.append(("abort_reports_USER_ABORT", SB(bool(o["codes"]) and o["codes"][-1] == X.USER_ABORT)))
            if self.shape == "nested3":   # the plan whose step was running is the one that latches
                marked = bool(o["inner_aborted"][0]) if o["at"] == 0 else bool(o["plan_aborted"])
            else:
                marked = bool(o["plan_aborted"]) and all(o["inner_aborted"][:1] if self.shape == "nested-inner" else [True])
            props.append(("plan_is_marked_aborted", SB(marked)))
            props.append(("further_steps_refuse_to_run", SB(o.get("refused_after", True) is True)))
            if self.shape == "two-steps" and len(o["codes"]) == 1:
                props.append(("second_step_refused_after_abort_in_first", SB(o["refused"] == 1)))
        else:
            props.append(("no_abort_no_USER_ABORT", SB(all(c != X.USER_ABORT for c in o["codes"]) and not o["plan_aborted"])))
        return props

    def observe(self, env, inp, oc):
        return {}


class BasicOptimizerCase(Case):
    """BasicOptimizer.set_abort_callback: the callback aborts at the k-th START_EVALUATION."""

    family = "events/basic-optimizer"

    def __init__(self, cid, nevals=3):
        self.id, self.nevals = cid, nevals
        rng = np.random.default_rng([5, 31])
        self.design = np.round(rng.uniform(-1, 1, (2, 1, 2)) * 64) / 64
        self.cfg0 = ens.ensemble_config(N=2, R=2, P=1, rmin=1, x0=[0.25, -0.5], extra={"optimizer": {"method": "symstub/x"}})

    def describe(self):
        return f"BasicOptimizer abort callback, {self.nevals} evaluations"

    def inputs(self, env):
        return {"at": env.integer("abort_at", 0, self.nevals)}

    def run(self, env, inp):
        from ropt.plan import BasicOptimizer
        import ropt.plan._basic_optimizer as BO

        at = int(inp["at"])
        ev = FlagEvaluator(env, {})
        pm = ens.stub_optimizer_manager()
        ens.set_samples(lambda s: env.const(self.design))
        pts = [np.array([0.25, -0.5]), np.array([0.5, 0.75]), np.array([-0.25, 0.0])]

        def script(opt, x0):
            for e in range(self.nevals):
                opt.callback(env.const(pts[e]), return_functions=True, return_gradients=False)

        ens.set_script(script)
        calls = {"n": 0}

        def cb():
            calls["n"] += 1
            return calls["n"] - 1 == at

        # BasicOptimizer builds its own OptimizerContext/PluginManager: hand it the stub manager
        old = BO.OptimizerContext
        BO.OptimizerContext = lambda evaluator: old(evaluator=evaluator, plugin_manager=pm)
        try:
            bo = BasicOptimizer(clone_config(self.cfg0), ev).set_abort_callback(cb)
            bo.run()
        finally:
            BO.OptimizerContext = old
        return {"code": bo.exit_code, "evals": len(ev.calls), "results": bo.results, "at": at}

    def props(self, env, inp, oc):
        from ropt.enums import OptimizerExitCode as X

        if not oc.ok:
            return [("no_internal_exception:" + type(oc.exc).__name__, SB(False))]
        o = oc.value
        if o["at"] < self.nevals:
            return [("abort_callback_stops_with_USER_ABORT", SB(o["code"] == X.USER_ABORT and o["evals"] == o["at"])),
                    ("tracked_result_reported", SB((o["results"] is None) == (o["at"] == 0)))]
        return [("runs_to_completion_without_abort", SB(o["code"] == X.OPTIMIZER_STEP_FINISHED and o["evals"] == self.nevals))]


def build_cases(tier):
    cases = []
    k = 0

    def add(cls=AbortCase, **kw):
        nonlocal k
        k += 1
        cases.append(cls(f"c15-{k:03d}", **kw))

    for who in ("observer", "handler", "evaluator"):
        add(shape="single", who=who)
        add(shape="two-steps", who=who)
    add(shape="single", who="observer", flags=True)
    add(shape="single", who="handler", maxf=1)
    add(shape="evaluator", who="evaluator")
    add(shape="nested3", who="evaluator")
    add(shape="single", who="observer", flags=True, rmin=0)       # every realization may fail with realization_min_success = 0
    add(shape="single", who="evaluator", flags=True, rmin=0, nevals=3)
    for who in ("observer", "handler", "inner-handler", "evaluator"):
        add(shape="nested-inner" if who in ("inner-handler",) else "nested-outer", who=who)
    for who in ("observer", "handler"):
        add(shape="nested-reparented", who=who)   # the nested plan was created under another plan
    add(shape="nested-own-context", who="observer")   # the nested plan has its own OptimizerContext
    add(BasicOptimizerCase)
    if tier == "thorough":
        for who in ("observer", "handler", "evaluator"):
            add(shape="single", who=who, nevals=3, flags=True)
            add(shape="two-steps", who=who, nevals=3, maxf=2)
        for who in ("observer", "handler", "inner-handler", "evaluator"):
            add(shape="nested-outer", who=who, nevals=3)
    return cases


META = dict(
    bounds={"quick": "plans: one optimizer step, two sequential steps, one evaluator step, an optimizer step with a nested plan (also one created under another parent); 2 evaluations per step (functions, then functions+gradients); abort raised by an observer, a handler, an inner-plan handler or the evaluator at every event/call index of the run (solver integer), or not at all",
            "thorough": "3 evaluations per step, failures and max_functions mixed in",
            "outside": "longer runs; several observers raising; aborts inside SciPy"},
    stubs=["optimizer plug-in `symstub`", "sampler plug-in `stub`", "recording ResultHandler plug-in `verifrec` (added through PluginManager.add_plugin) and observers for every event type"],
    assumptions=["delivery of the event at which the abort is raised stops at the raising recipient",
                 "the solver variables here have small finite domains: the solver's verdict equals exhaustive exploration of the bounded schedule space"],
)
