"""C09 - fixed (masked-out) variables never move and never receive a gradient.

Encoded: EnsembleOptimizer.start/_optimizer_callback/_get_completed_variables (incl. the nested-result branch),
_run_evaluations, _gradients_from_results, EnsembleEvaluator.calculate -> _perturb_variables/_apply_bounds,
_init_samplers/_get_mask, _compute_gradients/_expand_gradients; SciPyOptimizer.start/_initialize_bounds.
Symbolic: the values of the fixed variables (initial and delivered by a nested optimization), bounds.
Enumerated: masks, sampler-to-variable maps, request scripts.
"""
from __future__ import annotations

import itertools
from fractions import Fraction

import numpy as np

from symnp import SymArray
from .common import And, Case, Implies, Not, Or, SB, SR, all_of, clone_config, close, exact, inject, isnan, ite, ssum, vals
from . import ens

ZERO = SR(Fraction(0))


class FixedCase(Case):
    family = "fixed-variables"

    def __init__(self, cid, *, mask, R=1, P=2, C=0, nested=False, sampler_map=None, batch=False, boundary="truncate_both", all_fail_at=None, real_samplers=None):
        self.id = cid
        self.mask = tuple(mask)
        self.N = len(mask)
        self.free = [j for j in range(self.N) if mask[j]]
        self.fixed = [j for j in range(self.N) if not mask[j]]
        self.R, self.P, self.C, self.nested, self.batch = R, P, C, nested, batch
        self.real_samplers = real_samplers   # the built-in SciPy samplers (concrete draws) instead of the stub
        self.all_fail_at = all_fail_at   # every realization fails in this evaluation (realization_min_success = 0)
        self.family = "fixed-variables" + ("/nested" if nested else "")
        nsam = 1 if sampler_map is None else max(sampler_map) + 1
        self.cfg0 = ens.ensemble_config(
            N=self.N, R=R, P=P, C=C, mask=None if all(mask) else list(mask), lower=-10.0, upper=10.0, boundary=boundary,
            x0=[0.0] * self.N, sampler_map=sampler_map,
            samplers=[{"method": f"stub/s{i}"} for i in range(nsam)] if real_samplers is None else [{"method": m} for m in real_samplers],
            rmin=0 if all_fail_at is not None else 1,
            extra={"optimizer": {"method": "symstub/x"}})
        rng = np.random.default_rng([self.N, R, P, 9])
        self.design = np.round(rng.uniform(-1, 1, (R, P, self.N)) * 64) / 64
        nf = len(self.free)
        self.points = [np.round(rng.uniform(-1, 1, nf) * 16) / 16 for _ in range(2)]
        # script: (point index, functions?, gradients?)
        self.script = [(0, True, False), (0, False, True), (1, True, True)] if not batch else [("B", True, False), (1, True, False)]

    def describe(self):
        return f"samplers={self.real_samplers or 'stub'} mask={self.mask} R={self.R} P={self.P} C={self.C} nested={self.nested} batch={self.batch} script={self.script} all_realizations_fail_at={self.all_fail_at}"

    def inputs(self, env):
        x0 = np.array([SR(Fraction(0))] * self.N, dtype=object)
        for j in self.fixed:
            x0[j] = env.real(f"x0_{j}", -5, 5)
        for i, j in enumerate(self.free):
            x0[j] = SR(Fraction(float(self.points[0][i])))
        nest = None
        if self.nested:
            nest = [[env.real(f"nest_{e}_{j}", -5, 5) for j in self.fixed] for e in range(len(self.script))]
        return {"x0": x0, "nest": nest}

    def run(self, env, inp):
        from ropt.ensemble_evaluator import EnsembleEvaluator
        from ropt.evaluator import EvaluatorResult
        from ropt.optimization import EnsembleOptimizer
        from ropt.results import FunctionEvaluations, FunctionResults, Functions, Realizations

        cfg = clone_config(self.cfg0)
        pm = ens.stub_optimizer_manager()
        N, K = self.N, 1

        def samples(sampler):
            a = self.design.copy()
            if sampler.mask is not None:  # contract checked by C17: zero outside the handled variables
                a[..., ~np.asarray(sampler.mask)] = 0.0
            return env.const(a)

        ens.set_samples(samples)
        log = {"calls": [], "results": [], "returned": [], "nested_args": []}

        def evaluator(variables, context):
            fail_all = self.all_fail_at is not None and len(log["calls"]) == self.all_fail_at
            log["calls"].append((variables, context))
            v = vals(variables)
            n = v.shape[0]
            out = np.empty((n, 1 + self.C), dtype=object)
            for i in range(n):
                s = ssum([v[i, j] * (j + 1) for j in range(N)])
                out[i, 0] = SR(s.v, True) if fail_all else s
                for c in range(self.C):
                    out[i, 1 + c] = s * (c + 2)
            return EvaluatorResult(objectives=env.arr(out[:, :1]), constraints=env.arr(out[:, 1:]) if self.C else None)

        def nested(variables):
            e = len(log["nested_args"])
            log["nested_args"].append(variables)
            v = vals(variables).copy()
            for i, j in enumerate(self.fixed):
                v[j] = inp["nest"][e][i]
            res = FunctionResults(
                batch_id=None, metadata={},
                evaluations=FunctionEvaluations.create(variables=env.arr(v), objectives=env.const(np.zeros((self.R, 1)))),
                realizations=Realizations(failed_realizations=np.zeros(self.R, dtype=bool)),
                functions=Functions.create(weighted_objective=env.const(np.array(0.0)), objectives=env.const(np.zeros(1))),
            )
            return res, False

        def script(opt, x0):
            log["x0_seen"] = x0
            for pt, fn, gr in self.script:
                if pt == "B":
                    x = env.const(np.vstack([self.points[0], self.points[1]]))
                else:
                    x = env.const(self.points[pt])
                log["returned"].append(opt.callback(x, return_functions=fn, return_gradients=gr))

        ens.set_script(script, parallel=self.batch, allow_nan=self.all_fail_at is not None)
        ee = EnsembleEvaluator(cfg, None, evaluator, pm)
        opt = EnsembleOptimizer(cfg, ee, pm, signal_evaluation=lambda results=None: log["results"].append(results),
                                nested_optimizer=nested if self.nested else None)
        code = opt.start(env.arr(inp["x0"]))
        log["code"] = code
        return log

    def props(self, env, inp, oc):
        from ropt.enums import OptimizerExitCode as X
        from ropt.results import FunctionResults, GradientResults

        if not oc.ok:
            return [("no_internal_exception:" + type(oc.exc).__name__, SB(False))]
        log = oc.value
        R, P, N = self.R, self.P, self.N
        props = [("run_completed", SB(log["code"] == X.OPTIMIZER_STEP_FINISHED and len(log["calls"]) == len(self.script)))]
        if len(log["calls"]) != len(self.script):
            return props

        def fixed_value(e, i):
            return inp["nest"][e][i] if self.nested else inp["x0"][self.fixed[i]]

        for e, ((pt, fn, gr), (variables, ctx)) in enumerate(zip(self.script, log["calls"])):
            v = np.asarray(vals(variables), dtype=object)
            for row in range(v.shape[0]):
                for i, j in enumerate(self.fixed):
                    props.append((f"eval{e}.row{row}.v{j}.fixed_value_in_request", exact(v[row, j], fixed_value(e, i))))
            # unperturbed rows carry the free vector the optimizer asked for
            pts = [self.points[0], self.points[1]] if pt == "B" else [self.points[pt]]
            for row in range(v.shape[0]):
                pert = ctx.perturbations is not None and int(ctx.perturbations[row]) >= 0
                if pert:
                    continue
                b = row // R if pt == "B" else 0
                for i, j in enumerate(self.free):
                    props.append((f"eval{e}.row{row}.v{j}.free_value_in_request", exact(v[row, j], SR(Fraction(float(pts[b][i]))))))
        # reported results
        delivered = [r for r in log["results"] if r is not None]
        for e, res in enumerate(delivered):
            for item in res:
                ev = item.evaluations
                var = np.asarray(vals(ev.variables), dtype=object)
                for i, j in enumerate(self.fixed):
                    props.append((f"result{e}.variables.v{j}.fixed", exact(var[j], fixed_value(e, i))))
                if isinstance(item, GradientResults):
                    pv = np.asarray(vals(ev.perturbed_variables), dtype=object)
                    for r in range(R):
                        for p in range(P):
                            for i, j in enumerate(self.fixed):
                                props.append((f"result{e}.perturbed[{r},{p}].v{j}.fixed", exact(pv[r, p, j], fixed_value(e, i))))
                    if item.gradients is not None:
                        for nm in ("weighted_objective", "objectives", "constraints"):
                            g = vals(getattr(item.gradients, nm))
                            if g is None:
                                continue
                            g = np.asarray(g, dtype=object)
                            for j in self.fixed:
                                col = g[..., j]
                                props.append((f"result{e}.gradients.{nm}.v{j}.zero",
                                              all_of(exact(x, ZERO) for x in np.atleast_1d(col).flat)))
        # what the algorithm sees
        x0_seen = np.asarray(vals(log["x0_seen"]), dtype=object)
        props.append(("optimizer_receives_full_initial_vector_from_ropt", SB(x0_seen.shape == (N,))))
        for (pt, fn, gr), (f, g) in zip(self.script, log["returned"]):
            if gr:
                props.append(("gradient_for_free_variables_only", SB(np.shape(vals(g)) == (1 + self.C, len(self.free)))))
        return props

    def observe(self, env, inp, oc):
        return {}


class ScipyStartCase(Case):
    """SciPyOptimizer.start hands only the free variables (and their bounds) to SciPy."""

    family = "fixed-variables/scipy"

    def __init__(self, cid, mask, method="slsqp"):
        self.id, self.mask, self.method = cid, tuple(mask), method
        self.N = len(mask)
        self.cfg0 = ens.ensemble_config(N=self.N, R=1, P=1, mask=list(mask), lower=-1.0, upper=2.0,
                                        extra={"optimizer": {"method": method}})

    def describe(self):
        return f"scipy {self.method} mask={self.mask}"

    def inputs(self, env):
        return {"x0": env.reals("x0", self.N, lo=-1, hi=2), "lb": env.reals("lb", self.N, lo=-5, hi=-1), "ub": env.reals("ub", self.N, lo=2, hi=5)}

    def run(self, env, inp):
        import ropt.plugins.optimizer.scipy as S

        cfg = clone_config(self.cfg0)
        inject(cfg.variables, lower_bounds=env.arr(inp["lb"], False), upper_bounds=env.arr(inp["ub"], False))
        rec = {}

        class B:
            def __init__(self, lb, ub):
                self.lb, self.ub = lb, ub

        def fake_minimize(**kw):
            rec.update(kw)

        old = (S.minimize, S.Bounds)
        S.minimize, S.Bounds = fake_minimize, B
        try:
            opt = S.SciPyOptimizer(cfg, lambda *a, **k: None)
            opt.start(env.arr(inp["x0"]))
        finally:
            S.minimize, S.Bounds = old
        return rec

    def props(self, env, inp, oc):
        if not oc.ok:
            return [("no_internal_exception:" + type(oc.exc).__name__, SB(False))]
        rec = oc.value
        free = [j for j in range(self.N) if self.mask[j]]
        x0 = np.asarray(vals(rec["x0"]), dtype=object)
        props = [("x0_has_free_length", SB(x0.shape == (len(free),)))]
        if x0.shape == (len(free),):
            props += [(f"x0[{i}]_is_free_variable_{j}", exact(x0[i], inp["x0"][j])) for i, j in enumerate(free)]
            lb, ub = np.asarray(vals(rec["bounds"].lb), dtype=object), np.asarray(vals(rec["bounds"].ub), dtype=object)
            props += [(f"bounds[{i}]_are_those_of_variable_{j}", And(exact(lb[i], inp["lb"][j]), exact(ub[i], inp["ub"][j]))) for i, j in enumerate(free)]
        return props


class RelativeInfCase(Case):
    """A fixed variable with a relative perturbation magnitude and an infinite bound: the configuration is refused,
    or the variable stays where it is - never NaN (inf x 0) in the vectors sent to the evaluator."""

    family = "fixed-variables/relative-infinite"

    def __init__(self, cid, side="upper"):
        self.id, self.side = cid, side

    def describe(self):
        return f"mask=(True, False), fixed variable: relative perturbation, infinite {self.side} bound"

    def inputs(self, env):
        return {"x1": env.real("x1", -5, 5)}

    def run(self, env, inp):
        from ropt.ensemble_evaluator import EnsembleEvaluator
        from ropt.evaluator import EvaluatorResult

        lower = [-10.0, -np.inf if self.side == "lower" else -10.0]
        upper = [10.0, np.inf if self.side == "upper" else 10.0]
        try:
            cfg = ens.ensemble_config(N=2, R=1, P=2, mask=[True, False], lower=lower, upper=upper, x0=[0.0, 0.0], ptypes="relative",
                                      magnitudes=0.01)
        except ValueError:
            return {"rejected": True}
        pm = ens.stub_manager()
        design = np.array([[[0.5, 0.0], [-0.25, 0.0]]])
        ens.set_samples(lambda s_: env.const(design))
        rows = []

        def evaluator(variables, context):
            rows.append(variables)
            v = vals(variables)
            return EvaluatorResult(objectives=env.arr(np.array([[v[i, 0]] for i in range(v.shape[0])], dtype=object)))

        x = np.array([SR(Fraction(1, 4)), inp["x1"]], dtype=object)
        ee = EnsembleEvaluator(cfg, None, evaluator, pm)
        ee.calculate(env.arr(x), compute_functions=True, compute_gradients=True)
        return {"rejected": False, "rows": rows}

    def props(self, env, inp, oc):
        if not oc.ok:
            return [("no_internal_exception:" + type(oc.exc).__name__, SB(False))]
        if oc.value["rejected"]:
            return [("refused_or_fixed_variable_kept", SB(True))]
        props = []
        for c, rows in enumerate(oc.value["rows"]):
            v = np.asarray(vals(rows), dtype=object)
            for i in range(v.shape[0]):
                props.append((f"call{c}.row{i}.fixed_value_in_request", exact(v[i, 1], inp["x1"])))
        return props

    def observe(self, env, inp, oc):
        return {}


class TwoMasksCase(Case):
    """Two optimizations in one process with the same shapes and complementary masks: the second one's reported
    gradients are exactly zero on *its* fixed variables (nothing of the first run shows through)."""

    family = "fixed-variables/two-runs"

    def __init__(self, cid, masks=((True, False, True), (False, True, False))):
        self.id, self.masks = cid, masks
        self.N = len(masks[0])

    def describe(self):
        return f"two ensemble evaluators in sequence, masks {self.masks}"

    def inputs(self, env):
        return {"A": env.reals("a", (1, 1, self.N), lo=-10, hi=10), "c": env.reals("c", (1, 1), lo=-10, hi=10)}

    def run(self, env, inp):
        from ropt.ensemble_evaluator import EnsembleEvaluator

        out = []
        for mask in self.masks:
            cfg = ens.ensemble_config(N=self.N, R=1, P=3, mask=list(mask), lower=-10.0, upper=10.0, x0=[0.25] * self.N)
            pm = ens.stub_manager()
            D = np.zeros((1, 3, self.N))
            free = [j for j in range(self.N) if mask[j]]
            for p in range(3):
                D[0, p, free[p % len(free)]] = 1.0 if p % 2 == 0 else -1.0
            ens.set_samples(lambda s_, D=D: env.const(D))
            ev = ens.AffineEvaluator(env, inp["A"], inp["c"], {}, 1)
            ee = EnsembleEvaluator(cfg, None, ev, pm)
            _, gr = ee.calculate(env.const(np.full(self.N, 0.25)), compute_functions=True, compute_gradients=True)
            out.append(gr)
        return out

    def props(self, env, inp, oc):
        if not oc.ok:
            return [("no_internal_exception:" + type(oc.exc).__name__, SB(False))]
        props = []
        for e, (mask, gr) in enumerate(zip(self.masks, oc.value)):
            for nm in ("weighted_objective", "objectives"):
                g = np.asarray(vals(getattr(gr.gradients, nm)), dtype=object)
                for j in range(self.N):
                    if not mask[j]:
                        props.append((f"run{e}.gradients.{nm}.v{j}.zero", all_of(exact(x, ZERO) for x in np.atleast_1d(g[..., j]).flat)))
        return props

    def observe(self, env, inp, oc):
        return {}


def build_cases(tier):
    cases = []
    k = 0

    def add(cls=FixedCase, *a, **kw):
        nonlocal k
        k += 1
        cases.append(cls(f"c09-{k:03d}", *a, **kw))

    Ns = (2, 3) if tier == "quick" else (2, 3, 4)
    for N in Ns:
        for mask in itertools.product([True, False], repeat=N):
            if not any(mask):
                continue
            if tier == "quick" and N == 3 and sum(mask) == 3:
                continue
            add(mask=mask)
    add(mask=(True, False, True), R=2, P=2, C=1)
    add(mask=(True, False), nested=True)
    add(mask=(False, True, True), nested=True, R=2)
    add(mask=(True, False, True), sampler_map=(0, 1, 1))
    add(mask=(True, False, True), sampler_map=(0, 1, 0))          # a sampler whose variables are all fixed
    add(mask=(False, True, False), sampler_map=(0, 1, 0), R=2)
    add(mask=(True, True, False), sampler_map=(1, 0, 0), boundary="mirror_both")
    add(mask=(True, False), batch=True)
    # the built-in samplers, one of them left with fixed variables only
    add(mask=(True, False, True), sampler_map=(0, 1, 0), real_samplers=("norm", "uniform"))
    add(mask=(False, True, True), sampler_map=(1, 0, 0), real_samplers=("sobol", "norm"), R=2)
    add(mask=(True, False), real_samplers=("lhs",))
    add(mask=(True, False, True), sampler_map=(0, 1, 0), real_samplers=("norm", "sobol"))   # a QMC engine with nothing to sample
    add(mask=(True, False, True), R=2, C=1, all_fail_at=1)          # all realizations fail in a gradient evaluation
    add(mask=(False, True), R=2, all_fail_at=2)
    add(mask=(False, True, False), batch=True, R=2)
    for mask in ((True, False, True), (False, True), (True, True, False)):
        add(ScipyStartCase, mask)
    add(ScipyStartCase, (True, False), "nelder-mead")
    add(RelativeInfCase, "upper")
    add(TwoMasksCase)
    add(RelativeInfCase, "lower")
    if tier == "thorough":
        add(mask=(True, False, True, False), nested=True, R=2, C=1)
        add(mask=(False, True, True, False), sampler_map=(0, 0, 1, 1), R=2, P=3)
        add(ScipyStartCase, (False, True, True, False), "l-bfgs-b")
    return cases


META = dict(
    bounds={"quick": "every mask for N<=3 (all-free N=3 skipped), R<=2, P=2, scripts of 3 requests (functions / gradient / both) or a batch of 2, nested values per evaluation",
            "thorough": "every mask for N<=4; nested with constraints; 4-variable sampler maps",
            "outside": "longer scripts; real SciPy algorithms (behind the scripted optimizer)"},
    stubs=["optimizer plug-in `symstub` (scripted requests)", "sampler plug-in `stub` obeying the sampler contract (C17): zero on variables it does not handle",
           "nested optimization callback returning a result whose fixed entries are fresh symbols",
           "scipy.optimize.minimize / Bounds recorders (ScipyStartCase)"],
    assumptions=["free variables and the design are concrete (NumPy's SVD needs concrete perturbation differences); the fixed variables' values are symbolic"],
)
