"""C03 - failed realizations and perturbations are excluded exactly as if absent.

(a) failure flags and both success thresholds (thresholds are symbolic integers);
(b) reported <=> enough successes, otherwise TOO_FEW_REALIZATIONS through EnsembleOptimizer;
(c) values equal the C01/C02 reference on the surviving rows;
(d) metamorphic: for a concrete set of failed realizations, the real code run on the ensemble with those
    realizations removed (weights renormalised) gives provably equal functions and gradients.
"""
from __future__ import annotations

import itertools
import os
from fractions import Fraction

import numpy as np

from .common import And, Case, Implies, Not, Or, SB, SR, all_of, clone_config, close, exact, inject, isnan, ite, ssum, too_few, vals
from . import ens
from .ens import ONE, ZERO
from .c02 import GradientCase, gclose, SL
from .c01 import sort_filter, cvar_filter


class ThresholdCase(GradientCase):
    """All failure flags and both thresholds symbolic; the NaN sits in an enumerated column."""

    def __init__(self, cid, *, nan_cols, **kw):
        super().__init__(cid, symflags="all", **kw)
        self.family = "failures/thresholds"
        F = self.K + self.C
        self.nan_col = lambda r, p: nan_cols[(r * 7 + (p + 1) * 3) % len(nan_cols)] % F

    def inputs(self, env):
        inp = super().inputs(env)
        inp["pmin"] = env.integer("pmin", 1, self.P)
        inp["rmin"] = env.integer("rmin", 0, self.R)
        return inp

    def props(self, env, inp, oc):
        props = super().props(env, inp, oc)
        if not oc.ok:
            return props
        # (c) function values on the surviving rows
        fr = oc.value["f"]
        if fr.functions is None:
            return props
        R, K, C, N = self.R, self.K, self.C, self.N
        w, A, c, flags = list(inp["w"]), inp["A"], inp["c"], inp["flags"]
        ff = ens.fail_flags_functions(flags, R)
        we = [ite(ff[r], ZERO, w[r]) for r in range(R)]
        tot = ssum(we)
        for kind, n, out, off in (("obj", K, vals(fr.functions.objectives), 0), ("con", C, vals(fr.functions.constraints), K)):
            for k in range(n):
                if kind == "obj" and self.obj_filt is not None and self.obj_filt[k] >= 0:
                    continue  # filtered: weights in force are the filter's (C01/C05)
                fx = [c[r, off + k] + ssum([A[r, off + k, i] * SR(Fraction(float(self.xv[i]))) for i in range(N)]) for r in range(R)]
                spec = ssum([we[r] * fx[r] for r in range(R)]) / tot
                props.append((f"function.{kind}{k}.mean_over_survivors", Implies(tot > 0, close(out[k], spec))))
        return props


class MetamorphicCase(Case):
    """Full ensemble with a concrete set of failed realizations vs. the reduced ensemble."""

    family = "failures/metamorphic"

    def __init__(self, cid, *, N, R, P, K=1, C=0, failed, estimators=("mean",), obj_est=None, filters=(), obj_filt=None,
                 seed=0, mask=None, nan_col=0, perturbation_failures=(), weights=None, pmin=1, merge=False, failed_by_count=()):
        self.id = cid
        self.N, self.R, self.P, self.K, self.C = N, R, P, K, C
        self.failed = tuple(failed)
        self.pmin, self.merge, self.by_count = pmin, merge, tuple(failed_by_count)
        # realizations in failed_by_count keep a valid unperturbed value but lose P-pmin+1 perturbations
        self.keep = [r for r in range(R) if not failed[r] and r not in self.by_count]
        self.estimators, self.obj_est, self.filters, self.obj_filt = estimators, obj_est, filters, obj_filt
        self.mask, self.nan_col_ix = mask, nan_col
        self.weights = weights
        self.pfail = set(perturbation_failures)  # (r, p) rows of surviving realizations that fail too
        for r in self.by_count:
            for p_ in range(P - pmin + 1):
                self.pfail.add((r, p_))
        rng = np.random.default_rng([seed, N, R, P, 5])
        self.design = np.round(rng.uniform(-1, 1, (R, P, N)) * 64) / 64
        if mask is not None:
            for j in range(N):
                if not mask[j]:
                    self.design[..., j] = 0.0
        self.xv = np.round(rng.uniform(-1, 1, N) * 16) / 16
        common = dict(N=N, P=P, K=K, C=C, mask=mask, x0=list(self.xv), estimators=estimators, obj_est=obj_est,
                      filters=filters, obj_filt=obj_filt, pmin=pmin, merge=merge)
        self.cfg_full = ens.ensemble_config(R=R, rmin=1, **common)
        self.cfg_red = ens.ensemble_config(R=len(self.keep), rmin=1, **common)

    def describe(self):
        return (f"N={self.N} R={self.R} P={self.P} K={self.K} C={self.C} failed={self.failed} est={self.estimators}/{self.obj_est} "
                f"filters={[f['method'] for f in self.filters]}/{self.obj_filt} pfail={sorted(self.pfail)} pmin={self.pmin} merge={self.merge} failed_by_count={self.by_count}")

    def inputs(self, env):
        R, K, C, N = self.R, self.K, self.C, self.N
        F = K + C
        if self.weights is not None:
            w = np.array([SR(Fraction(x)) for x in self.weights], dtype=object)
        else:
            w = env.reals("w", R, lo=0, hi=1)
            env.assume(ssum(list(w)) == 1)
            env.assume(ssum([w[r] for r in self.keep]) > 0)
        ow = env.reals("ow", K, lo=0, hi=1)
        env.assume(ssum(list(ow)) == 1)
        A = env.reals("a", (R, F, N), lo=-SL, hi=SL)
        c = env.reals("c", (R, F), lo=-SL, hi=SL)
        return {"w": w, "ow": ow, "A": A, "c": c}

    def _run(self, env, inp, cfg0, rows, flags):
        from ropt.ensemble_evaluator import EnsembleEvaluator

        cfg = clone_config(cfg0)
        w = [inp["w"][r] for r in rows]
        tot = ssum(w)
        wn = np.array([x / tot for x in w], dtype=object)  # what validation would store
        inject(cfg.realizations, weights=env.arr(wn, writeable=False))
        inject(cfg.objectives, weights=env.arr(inp["ow"], writeable=False))
        pm = ens.stub_manager()
        ens.set_samples(lambda s: env.const(self.design[rows]))
        ev = ens.AffineEvaluator(env, inp["A"][rows], inp["c"][rows], flags, self.K, nan_col=lambda r, p: self.nan_col_ix)
        ee = EnsembleEvaluator(cfg, None, ev, pm)
        return ee.calculate(env.const(self.xv), compute_functions=True, compute_gradients=True)

    def run(self, env, inp):
        R = self.R
        flags_full = {(r, -1): SB(True) for r in range(R) if self.failed[r]}
        flags_full.update({k: SB(True) for k in self.pfail})
        full = self._run(env, inp, self.cfg_full, list(range(R)), flags_full)
        remap = {r: i for i, r in enumerate(self.keep)}
        flags_red = {(remap[r], p): SB(True) for (r, p) in self.pfail if r in remap}
        red = self._run(env, inp, self.cfg_red, self.keep, flags_red)
        return {"full": full, "red": red}

    def props(self, env, inp, oc):
        if not oc.ok:
            if too_few(oc.exc) and ("stddev" in self.estimators or self.filters):
                return [("abort_is_too_few_realizations", SB(True))]
            return [("no_internal_exception:" + type(oc.exc).__name__, SB(False))]
        (ff, gf), (fr, gr) = oc.value["full"], oc.value["red"]
        props = [("failed_flags_reported", SB(True))]
        rf = vals(ff.realizations.failed_realizations)
        props.append(("full.failed_flags", all_of(rf[r] == SB(bool(self.failed[r])) for r in range(self.R))))
        rg = vals(gf.realizations.failed_realizations)
        props.append(("full.gradient_failed_flags", all_of(rg[r] == SB(bool(self.failed[r]) or r in self.by_count) for r in range(self.R))))
        if self.by_count:
            # function values still use the realizations that only lost perturbations: compare gradients only
            props.append(("functions_reported", SB(ff.functions is not None)))
            if gf.gradients is None or gr.gradients is None:
                props.append(("both_report_or_neither", SB((gf.gradients is None) == (gr.gradients is None))))
                return props
            for nm in ("objectives", "constraints", "weighted_objective"):
                a_, b_ = vals(getattr(gf.gradients, nm)), vals(getattr(gr.gradients, nm))
                if a_ is None:
                    continue
                a_, b_ = np.asarray(a_, dtype=object), np.asarray(b_, dtype=object)
                for idx in np.ndindex(a_.shape):
                    props.append((f"gradient.{nm}{list(idx)}.same_as_reduced_ensemble",
                                  Or(And(isnan(a_[idx]), isnan(b_[idx])), gclose(a_[idx], b_[idx], SR(Fraction(SL))))))
            return props
        if ff.functions is None or fr.functions is None or gf.gradients is None or gr.gradients is None:
            props.append(("both_report_or_neither", SB((ff.functions is None) == (fr.functions is None)
                                                       and (gf.gradients is None) == (gr.gradients is None))))
            return props
        def eq(name, a, b, scale=None):
            a, b = vals(a), vals(b)
            if a is None and b is None:
                return
            a, b = np.asarray(a, dtype=object), np.asarray(b, dtype=object)
            for idx in np.ndindex(a.shape):
                ok = close(a[idx], b[idx]) if scale is None else gclose(a[idx], b[idx], scale)
                props.append((f"{name}{list(idx)}.same_as_reduced_ensemble", Or(And(isnan(a[idx]), isnan(b[idx])), ok)))
        eq("objectives", ff.functions.objectives, fr.functions.objectives)
        eq("constraints", ff.functions.constraints, fr.functions.constraints)
        eq("weighted_objective", ff.functions.weighted_objective, fr.functions.weighted_objective)
        eq("objective_gradients", gf.gradients.objectives, gr.gradients.objectives, SR(Fraction(SL)))
        eq("constraint_gradients", gf.gradients.constraints, gr.gradients.constraints, SR(Fraction(SL)))
        eq("weighted_gradient", gf.gradients.weighted_objective, gr.gradients.weighted_objective, SR(Fraction(SL)))
        return props

    def observe(self, env, inp, oc):
        if not oc.ok or oc.value["full"][0].functions is None:
            return {}
        return {"obj": oc.value["full"][0].functions.objectives}


class OptimizerStopCase(Case):
    """(b) through EnsembleOptimizer: a scripted optimizer asks for functions, then gradients, then functions."""

    family = "failures/optimizer"

    def __init__(self, cid, *, R, P, rmin, pmin, split):
        self.id, self.R, self.P, self.rmin, self.pmin, self.split = cid, R, P, rmin, pmin, split
        self.N = 2
        rng = np.random.default_rng([R, P, 11])
        self.design = np.round(rng.uniform(-1, 1, (R, P, self.N)) * 64) / 64
        self.cfg0 = ens.ensemble_config(N=2, R=R, P=P, rmin=rmin, pmin=pmin, x0=[0.25, -0.5],
                                        extra={"optimizer": {"method": "symstub/x", "split_evaluations": split}})

    def describe(self):
        return f"R={self.R} P={self.P} rmin={self.rmin} pmin={self.pmin} split={self.split}"

    def script_steps(self):
        # evaluation index -> (functions?, gradients?)
        return [(True, False), (False, True), (True, True)] if not self.split else [(True, False), (False, True), (True, False)]

    def inputs(self, env):
        flags = {}
        for e, (fn, gr) in enumerate(self.script_steps()):
            for r in range(self.R):
                if fn or (gr and e > 1):
                    flags[(e, r, -1)] = env.flag(f"nan_e{e}_{r}_u")
                if gr:
                    for p in range(self.P):
                        flags[(e, r, p)] = env.flag(f"nan_e{e}_{r}_{p}")
        return {"flags": flags}

    def run(self, env, inp):
        from ropt.ensemble_evaluator import EnsembleEvaluator
        from ropt.evaluator import EvaluatorResult
        from ropt.optimization import EnsembleOptimizer

        cfg = clone_config(self.cfg0)
        pm = ens.stub_optimizer_manager()
        ens.set_samples(lambda s: env.const(self.design))
        log = {"evals": [], "signals": []}
        steps = self.script_steps()

        def evaluator(variables, context):
            e = len(log["evals"])
            n = variables.shape[0]
            vals_ = np.empty((n, 1), dtype=object)
            for i in range(n):
                r = int(context.realizations[i])
                p = -1 if context.perturbations is None else int(context.perturbations[i])
                fl = inp["flags"].get((e, r, p), SB(False))
                vals_[i, 0] = SR(Fraction(1 + i), fl.t)
            log["evals"].append((e, context))
            return EvaluatorResult(objectives=env.arr(vals_))

        def script(opt, x0):
            x = x0
            for e, (fn, gr) in enumerate(steps):
                opt.callback(x if e < 2 else x + 0.5, return_functions=fn, return_gradients=gr)
                opt.log.append(e)

        ens.set_script(script)
        ee = EnsembleEvaluator(cfg, None, evaluator, pm)
        opt = EnsembleOptimizer(cfg, ee, pm, signal_evaluation=lambda results=None: log["signals"].append(results))
        code = opt.start(env.const(np.array([0.25, -0.5])))
        return {"code": code, "done": list(ens.created_optimizers()[-1].log), "log": log}

    def props(self, env, inp, oc):
        from ropt.enums import OptimizerExitCode as X

        if not oc.ok:
            return [("no_internal_exception:" + type(oc.exc).__name__, SB(False))]
        R, P, flags = self.R, self.P, inp["flags"]
        steps = self.script_steps()
        bad = []  # bad[e]: evaluation e had too few successes
        for e, (fn, gr) in enumerate(steps):
            fun_failed = [flags.get((e, r, -1), SB(False)) for r in range(R)]
            too_few_f = ssum([ite(x, ZERO, ONE) for x in fun_failed]) < self.rmin if fn else SB(False)
            if gr:
                # the gradient's unperturbed values: same evaluation (combined) or the cached function evaluation
                src = e if (e, 0, -1) in flags else e - 1
                gfailed = []
                for r in range(R):
                    ns = ssum([ite(flags[(e, r, p)], ZERO, ONE) for p in range(P)])
                    gfailed.append(Or(flags.get((src, r, -1), SB(False)), ns < self.pmin))
                too_few_g = ssum([ite(x, ZERO, ONE) for x in gfailed]) < self.rmin
            else:
                too_few_g = SB(False)
            allfail = SB(False)
            if self.rmin < 1:  # the scripted optimizer does not tolerate NaN
                allfail = Or(And(*fun_failed) if fn else SB(False), And(*gfailed) if gr else SB(False))
            bad.append(Or(too_few_f, too_few_g, allfail))
        code, done = oc.value["code"], oc.value["done"]
        props = []
        first_bad = [And(bad[e], *[Not(bad[i]) for i in range(e)]) for e in range(len(steps))]
        none_bad = And(*[Not(b) for b in bad])
        if code == X.TOO_FEW_REALIZATIONS:
            props.append(("too_few_only_after_a_failing_evaluation", Or(*[And(first_bad[e], SB(len(done) == e)) for e in range(len(steps))])))
        elif code == X.OPTIMIZER_STEP_FINISHED:
            props.append(("finished_only_without_failing_evaluation", And(none_bad, SB(len(done) == len(steps)))))
        else:
            props.append(("documented_exit_code", SB(False)))
        # results of the failing evaluation were still signalled
        sig = oc.value["log"]["signals"]
        props.append(("every_started_evaluation_is_signalled_with_results",
                      SB(len(sig) % 2 == 0 and all(sig[i] is None and sig[i + 1] is not None for i in range(0, len(sig), 2)))))
        return props

    def observe(self, env, inp, oc):
        return {}


class InfiniteValuesCase(Case):
    """Infinite values are not failures: a row holding +inf next to -inf (or any infinity) fails only if it holds a NaN."""

    family = "failures/infinite-values"

    def __init__(self, cid, *, R=2, P=2, K=2, C=0, seed=0):
        self.id, self.R, self.P, self.K, self.C, self.N = cid, R, P, K, C, 2
        rng = np.random.default_rng([seed, R, P, 13])
        self.design = np.round(rng.uniform(-1, 1, (R, P, 2)) * 64) / 64
        self.design[self.design == 0] = 1.0 / 64
        self.cfg0 = ens.ensemble_config(N=2, R=R, P=P, K=K, C=C, rmin=0, pmin=1, x0=[0.25, -0.5])

    def describe(self):
        return f"R={self.R} P={self.P} K={self.K} C={self.C}: realization 0 returns (+inf, -inf, ...) unperturbed, realization 1 in its first perturbation"

    def inputs(self, env):
        R, P = self.R, self.P
        F = self.K + self.C
        flags = {(r, p): env.flag(f"nan_{r}_{'u' if p < 0 else p}") for r in range(R) for p in [-1] + list(range(P))}
        return {"flags": flags, "A": env.reals("a", (R, F, 2), lo=-SL, hi=SL), "c": env.reals("c", (R, F), lo=-SL, hi=SL)}

    def run(self, env, inp):
        from ropt.ensemble_evaluator import EnsembleEvaluator

        INF = SR(Fraction(0), False, 1)
        F = self.K + self.C

        def infinite(i, r, p, f, context):
            if (r, p) in ((0, -1), (1, 0)):
                return INF if f % 2 == 0 else -INF     # mixed signs along the row
            return None

        pm = ens.stub_manager()
        ens.set_samples(lambda s_: env.const(self.design))
        ev = ens.AffineEvaluator(env, inp["A"], inp["c"], inp["flags"], self.K, nan_col=lambda r, p: F - 1, garbage=infinite)
        ee = EnsembleEvaluator(clone_config(self.cfg0), None, ev, pm)
        fr, gr = ee.calculate(env.const(np.array([0.25, -0.5])), compute_functions=True, compute_gradients=True)
        return {"f": fr, "g": gr}

    def props(self, env, inp, oc):
        if not oc.ok:
            return [("no_internal_exception:" + type(oc.exc).__name__, SB(False))]
        R, P, flags = self.R, self.P, inp["flags"]
        fr, gr = oc.value["f"], oc.value["g"]
        ff = ens.fail_flags_functions(flags, R)
        gf = ens.fail_flags_gradients(flags, R, P, 1)
        rff, rgf = vals(fr.realizations.failed_realizations), vals(gr.realizations.failed_realizations)
        props = [("function.failed_iff_a_value_is_nan", all_of(rff[r] == ff[r] for r in range(R))),
                 ("gradient.failed_iff_nan_or_too_few_perturbations", all_of(rgf[r] == gf[r] for r in range(R)))]
        # the delivered per-realization values keep their infinities
        o = np.asarray(vals(fr.evaluations.objectives), dtype=object)
        props.append(("infinite_value_is_delivered_unchanged", Implies(Not(ff[0]), SB(o[0, 0].inf == 1))))
        return props

    def observe(self, env, inp, oc):
        return {}


def build_cases(tier):
    cases = []
    k = 0
    seed = int(os.environ.get("VERIF_SEED", "0") or 0)

    def add(cls, **kw):
        nonlocal k
        k += 1
        cases.append(cls(f"c03-{k:03d}", **kw))

    add(ThresholdCase, N=2, R=2, P=2, nan_cols=(0,), seed=seed)
    add(ThresholdCase, N=2, R=2, P=2, K=2, C=1, nan_cols=(1, 2, 0), seed=seed)
    add(ThresholdCase, N=1, R=3, P=1, K=1, C=1, nan_cols=(1,), seed=seed)
    if tier == "thorough":
        add(ThresholdCase, N=2, R=2, P=3, K=2, C=1, nan_cols=(2, 0, 1), seed=seed)
        add(ThresholdCase, N=2, R=3, P=2, K=1, C=1, nan_cols=(0, 1), seed=seed)
    # metamorphic: every non-empty proper subset of failed realizations
    Rm = 3
    for failed in itertools.product([False, True], repeat=Rm):
        if all(failed) or not any(failed):
            continue
        add(MetamorphicCase, N=2, R=Rm, P=2, K=2, C=1, failed=failed, seed=seed)
    add(MetamorphicCase, N=2, R=3, P=3, failed=(False, True, False), perturbation_failures=((0, 1), (2, 2)), seed=seed)
    add(MetamorphicCase, N=1, R=3, P=2, K=2, failed=(True, False, False), estimators=("mean", "stddev"), obj_est=(0, 1), seed=seed,
        weights=(Fraction(1, 2), Fraction(1, 8), Fraction(3, 8)))
    add(MetamorphicCase, N=2, R=3, P=2, K=2, failed=(False, False, True), filters=(sort_filter(0, 0),), obj_filt=(0, -1), seed=seed)
    add(MetamorphicCase, N=2, R=3, P=2, failed=(False, True, False), filters=(cvar_filter(0.75),), obj_filt=(0,), seed=seed, nan_col=0)
    # realizations that fail only because too few of their perturbations succeed (per-realization and merged)
    add(MetamorphicCase, N=2, R=3, P=3, failed=(False, False, False), failed_by_count=(1,), pmin=2, seed=seed)
    add(MetamorphicCase, N=2, R=3, P=4, failed=(False, False, False), failed_by_count=(0,), pmin=3, merge=True, seed=seed)
    add(MetamorphicCase, N=2, R=3, P=3, failed=(True, False, False), failed_by_count=(2,), pmin=3, merge=True, seed=seed)
    # the same with the standard-deviation estimator: its statistics must be those of the gradient's survivors
    add(MetamorphicCase, N=1, R=3, P=2, failed=(False, False, False), failed_by_count=(1,), pmin=2, estimators=("stddev",), seed=seed,
        weights=(Fraction(1, 2), Fraction(1, 4), Fraction(1, 4)))
    # functions first, then a gradient-only request at the same point, with a filter that zeroes realizations
    add(ThresholdCase, N=1, R=3, P=1, K=1, nan_cols=(0,), seed=seed, split=True, filters=(sort_filter(0, 1),), obj_filt=(0,))
    if tier == "thorough":
        for failed in itertools.product([False, True], repeat=4):
            if all(failed) or not any(failed):
                continue
            add(MetamorphicCase, N=2, R=4, P=2, K=1, C=1, failed=failed, seed=seed + 1, mask=(True, False))
        for pf in itertools.combinations([(r, p) for r in (0, 2) for p in range(3)], 2):
            add(MetamorphicCase, N=2, R=3, P=3, failed=(False, True, False), perturbation_failures=pf, seed=seed + 2)
    add(InfiniteValuesCase, seed=seed)
    add(InfiniteValuesCase, K=1, C=2, seed=seed)
    for split in (False, True):
        add(OptimizerStopCase, R=2, P=2, rmin=1, pmin=1, split=split)
        add(OptimizerStopCase, R=2, P=2, rmin=2, pmin=2, split=split)
    add(OptimizerStopCase, R=2, P=1, rmin=0, pmin=1, split=False)
    if tier == "thorough":
        add(OptimizerStopCase, R=3, P=2, rmin=2, pmin=1, split=False)
        add(OptimizerStopCase, R=3, P=2, rmin=2, pmin=2, split=True)
    return cases


META = dict(
    bounds={"quick": "thresholds: R<=3, P<=2, all failure flags and both thresholds symbolic; metamorphic: R=3 with every proper failure subset; optimizer: 3 evaluations, R=2, P<=2",
            "thorough": "metamorphic R=4 (14 subsets) and every pair of failed perturbations for R=3,P=3; optimizer R=3",
            "outside": "larger ensembles; which column carries the NaN is enumerated over a fixed assignment per case"},
    stubs=["sampler plug-in `stub` (concrete designs)", "evaluator: affine, symbolic slopes/offsets, NaN flag per row",
           "optimizer plug-in `symstub`: fixed script of three callback requests (optimizer cases)"],
    assumptions=["value comparisons apply when a surviving realization has positive weight",
                 "metamorphic comparison removes whole realizations (perturbation removal is covered by the reference formula)"],
    timeout_ms={"quick": 20000, "thorough": 60000},
)
