"""C08 - the problem handed to SciPy is equivalent to the configured problem.

Encoded: SciPyOptimizer.__init__ (validate_supported_constraints, _initialize_bounds, _initialize_constraints,
_initialize_constraints_dict/_object, _parse_options), start, _fun/_jac, NormalizedConstraints.*,
get_masked_linear_constraints.  scipy.optimize.minimize / differential_evolution / Bounds /
LinearConstraint / NonlinearConstraint are replaced by recorders; the captured callables are then called.
Symbolic: bound values, raw constraint values and Jacobian rows at the test point, linear coefficients, the free point.
Enumerated: kind per constraint, mask, method, options in {None, {}, dict}.
"""
from __future__ import annotations

import itertools
from fractions import Fraction

import numpy as np

from symnp import SymArray
from .common import And, Case, Iff, Implies, Not, Or, SB, SR, all_of, clone_config, close, exact, inject, isnan, ite, make_config, ssum, vals

INF = SR(Fraction(0), False, 1)
ZERO = SR(Fraction(0))
KINDS = ("eq", "lower", "upper", "both", "none")
BIG = 100
SUPPORT = {  # what the SciPy plug-in documents per method
    "slsqp": {"bounds", "linear:eq", "linear:ineq", "nonlinear:eq", "nonlinear:ineq"},
    "cobyla": {"linear:ineq", "nonlinear:ineq"},
    "differential_evolution": {"bounds", "linear:eq", "linear:ineq", "nonlinear:eq", "nonlinear:ineq"},
    "l-bfgs-b": {"bounds"}, "tnc": {"bounds"}, "nelder-mead": {"bounds"}, "powell": {"bounds"},
    "bfgs": set(), "cg": set(), "newton-cg": set(),
}


def mk_bounds(env, name, kinds):
    lo, hi = [], []
    for i, k in enumerate(kinds):
        if k == "eq":
            a = env.real(f"{name}_lo_{i}", -BIG, BIG)
            b = a
        elif k == "both":
            a, b = env.real(f"{name}_lo_{i}", -BIG, BIG), env.real(f"{name}_hi_{i}", -BIG, BIG)
            env.assume(b - a >= Fraction(1, 10000))   # a narrow band is still two inequalities
        elif k == "lower":
            a, b = env.real(f"{name}_lo_{i}", -BIG, BIG), INF
        elif k == "upper":
            a, b = -INF, env.real(f"{name}_hi_{i}", -BIG, BIG)
        else:
            a, b = -INF, INF
        lo.append(a), hi.append(b)
    return lo, hi


class ProblemCase(Case):
    family = "scipy-problem"

    def __init__(self, cid, *, method, nkinds=(), lkinds=(), mask=None, N=2, lin_zero=None, options="none", max_iter=7,
                 var_bounds="both", types=None):
        self.id = cid
        self.types = tuple(types) if types is not None else None   # variable types (1 = real, 2 = integer)
        self.method, self.nkinds, self.lkinds, self.N = method, tuple(nkinds), tuple(lkinds), N
        self.mask = tuple(mask) if mask is not None else None
        self.free = [j for j in range(N) if mask is None or mask[j]]
        self.options, self.max_iter, self.var_bounds = options, max_iter, var_bounds
        # lin_zero[i][j] True => coefficient (i, j) is the constant 0 (decides which rows survive a mask)
        self.lin_zero = lin_zero if lin_zero is not None else [[False] * N for _ in lkinds]
        kinds_present = set()
        for pre, ks in (("nonlinear", self.nkinds), ("linear", self.lkinds)):
            for k in ks:
                if k == "eq":
                    kinds_present.add(f"{pre}:eq")
                elif k in ("lower", "upper", "both"):
                    kinds_present.add(f"{pre}:ineq")
        if var_bounds != "none":
            kinds_present.add("bounds")
        self.kinds_present = kinds_present
        self.unbounded_only = any(ks and all(k == "none" for k in ks) for ks in (self.nkinds, self.lkinds)) or \
            any("none" in ks and "eq" in ks and not any(k in ("lower", "upper", "both") for k in ks) for ks in (self.nkinds, self.lkinds))
        self.supported = kinds_present <= SUPPORT[method] and not (method == "differential_evolution" and var_bounds == "none")
        self.family = "scipy-problem/" + ("supported" if self.supported else "unsupported")
        vb = {"both": (-1.0, 2.0), "lower": (-1.0, np.inf), "upper": (-np.inf, 2.0), "none": (-np.inf, np.inf)}[var_bounds]
        d = {
            "variables": {"initial_values": [0.5] * N, "lower_bounds": vb[0], "upper_bounds": vb[1]},
            "optimizer": {"method": method, "max_iterations": max_iter, "tolerance": 1e-5},
        }
        if mask is not None:
            d["variables"]["mask"] = list(mask)
        if types is not None:
            d["variables"]["types"] = list(types)
        if options == "empty":
            d["optimizer"]["options"] = {}
        elif options == "own":   # the options carry the back-end's own limit: the configured max_iterations still wins
            d["optimizer"]["options"] = {"maxfun" if method == "tnc" else "maxiter": 200}
        elif options == "dict":
            d["optimizer"]["options"] = {"ftol": 1e-3} if method != "differential_evolution" else {"seed": 3}
        if self.nkinds:
            d["nonlinear_constraints"] = {"lower_bounds": [0.0] * len(nkinds), "upper_bounds": [1.0] * len(nkinds)}
        if self.lkinds:
            d["linear_constraints"] = {"coefficients": [[1.0] * N] * len(lkinds), "lower_bounds": [0.0] * len(lkinds),
                                       "upper_bounds": [1.0] * len(lkinds)}
        self.cfg0 = make_config(d)

    def describe(self):
        return (f"{self.method} nonlinear={self.nkinds} linear={self.lkinds} mask={self.mask} types={self.types} options={self.options} "
                f"var_bounds={self.var_bounds} supported={self.supported}")

    def inputs(self, env):
        N = self.N
        nlo, nhi = mk_bounds(env, "nb", self.nkinds)
        llo, lhi = mk_bounds(env, "lb", self.lkinds)
        coef = np.empty((len(self.lkinds), N), dtype=object)
        for i in range(len(self.lkinds)):
            for j in range(N):
                if self.lin_zero[i][j]:
                    coef[i, j] = ZERO
                else:
                    coef[i, j] = env.real(f"a_{i}_{j}", -10, 10)
                    env.assume(Not(coef[i, j] == 0))
        x = env.reals("x", len(self.free), lo=-BIG, hi=BIG)          # the free point the algorithm asks about
        x2 = env.reals("y", len(self.free), lo=-BIG, hi=BIG)         # a second, clearly different point
        from .common import Or as _Or
        env.assume(_Or(*[_Or(x2[t] - x[t] > 1 + abs(x[t]), x[t] - x2[t] > 1 + abs(x[t])) for t in range(len(self.free))]) if self.free else SB(True))
        x0 = env.reals("x0", N, lo=-1, hi=2)                          # initial values (fixed variables keep them)
        g = env.reals("g", len(self.nkinds), lo=-BIG, hi=BIG)         # raw non-linear constraint values at x
        J = env.reals("J", (1 + len(self.nkinds), len(self.free)), lo=-BIG, hi=BIG)  # raw gradient rows at x
        vlo = env.reals("vlo", N, lo=-5, hi=-1)
        vhi = env.reals("vhi", N, lo=2, hi=5)
        return dict(nlo=nlo, nhi=nhi, llo=llo, lhi=lhi, coef=coef, x=x, x2=x2, x0=x0, g=g, J=J, vlo=vlo, vhi=vhi)

    def run(self, env, inp):
        import ropt.plugins.optimizer.scipy as S

        obj = lambda seq: np.array(list(seq), dtype=object)  # noqa: E731
        cfg = clone_config(self.cfg0)
        N = self.N
        vb = self.var_bounds
        vlo = [inp["vlo"][j] if vb in ("both", "lower") else -INF for j in range(N)]
        vhi = [inp["vhi"][j] if vb in ("both", "upper") else INF for j in range(N)]
        inject(cfg.variables, lower_bounds=env.arr(obj(vlo), False), upper_bounds=env.arr(obj(vhi), False),
               initial_values=env.arr(inp["x0"], False))
        if self.nkinds:
            inject(cfg.nonlinear_constraints, lower_bounds=env.arr(obj(inp["nlo"]), False), upper_bounds=env.arr(obj(inp["nhi"]), False))
        if self.lkinds:
            inject(cfg.linear_constraints, coefficients=env.arr(inp["coef"], False),
                   lower_bounds=env.arr(obj(inp["llo"]), False), upper_bounds=env.arr(obj(inp["lhi"]), False))
        rec = {"calls": []}

        class Rec:
            def __init__(self, *a, **kw):
                self.args, self.kw = a, kw

        class RBounds(Rec):
            pass

        class RLinear(Rec):
            pass

        class RNonlinear(Rec):
            pass

        def fake_minimize(**kw):
            rec["minimize"] = kw

        def fake_de(**kw):
            rec["de"] = kw

        def callback(variables, *, return_functions, return_gradients):
            rec["calls"].append((variables, return_functions, return_gradients))
            f = env.arr(np.array([SR(Fraction(0))] + list(inp["g"]), dtype=object)) if return_functions else np.array([])
            gr = env.arr(inp["J"]) if return_gradients else np.array([])
            return f, gr

        old = (S.minimize, S.differential_evolution, S.Bounds, S.LinearConstraint, S.NonlinearConstraint)
        S.minimize, S.differential_evolution, S.Bounds, S.LinearConstraint, S.NonlinearConstraint = fake_minimize, fake_de, RBounds, RLinear, RNonlinear
        try:
            opt = S.SciPyOptimizer(cfg, callback)
            opt.start(env.arr(inp["x0"]))
            kw = rec.get("minimize") or rec.get("de")
            out = {"kw": kw, "kind": "minimize" if "minimize" in rec else "de"}
            x = env.arr(inp["x"])
            cons = kw["constraints"]
            vals_, jacs = [], []
            if out["kind"] == "minimize":
                for c in cons:
                    vals_.append((c["type"], c["fun"](x)))
                    jacs.append(c["jac"](x) if "jac" in c else None)
            else:
                for c in cons:
                    if isinstance(c, RNonlinear):
                        out["nl"] = c
                        out["nl_fun"] = c.kw["fun"](x)
                        out["nl_jac"] = None  # differential_evolution never calls the Jacobian
                    else:
                        out["lin"] = c
            out["vals"], out["jacs"] = vals_, jacs
            # the same callables at a second point, without an objective request in between
            out["vals2"] = []
            if out["kind"] == "minimize":
                x2 = env.arr(inp["x2"])
                out["vals2"] = [(c["type"], c["fun"](x2)) for c in cons]
            out["options"] = kw.get("options") if out["kind"] == "minimize" else {k: v for k, v in kw.items()}
            return out
        finally:
            S.minimize, S.differential_evolution, S.Bounds, S.LinearConstraint, S.NonlinearConstraint = old

    # ---- the property
    def retained_linear(self):
        """rows that survive the mask (no non-zero coefficient on a fixed variable)"""
        rows = []
        for i in range(len(self.lkinds)):
            if self.mask is None or all(self.lin_zero[i][j] for j in range(self.N) if not self.mask[j]):
                rows.append(i)
        return rows

    def props(self, env, inp, oc):
        if not oc.ok:
            if isinstance(oc.exc, NotImplementedError):
                if self.unbounded_only:
                    return [("rejection_of_vacuous_constraints_not_judged", SB(True))]
                return [("rejected_only_if_a_kind_is_unsupported", SB(not self.supported))]
            return [("no_internal_exception:" + type(oc.exc).__name__, SB(False))]
        props = []
        if not self.unbounded_only:
            props.append(("unsupported_kinds_are_rejected", SB(self.supported)))
        out = oc.value
        kw = out["kw"]
        N, free = self.N, self.free
        x = inp["x"]
        # --- bounds: those of the free variables
        b = kw["bounds"]
        if self.var_bounds == "none":
            props.append(("no_bounds_object_without_finite_bounds", SB(b is None)))
        else:
            props.append(("bounds_object_present", SB(b is not None)))
            if b is not None:
                lb, ub = np.asarray(vals(b.args[0]), dtype=object), np.asarray(vals(b.args[1]), dtype=object)
                props.append(("bounds_have_free_length", SB(lb.shape == (len(free),) and ub.shape == (len(free),))))
                if lb.shape == (len(free),):
                    for i, j in enumerate(free):
                        elo = inp["vlo"][j] if self.var_bounds in ("both", "lower") else -INF
                        ehi = inp["vhi"][j] if self.var_bounds in ("both", "upper") else INF
                        props.append((f"bounds[{i}].are_those_of_variable_{j}", And(exact(lb[i], elo), exact(ub[i], ehi))))
        # --- variable types: only the free variables are exposed to a method that knows about integrality
        if self.types is not None and out["kind"] == "de":
            integ = kw.get("integrality")
            exp = [self.types[j] == 2 for j in free]
            props.append((f"integrality_of_the_free_variables_only.options_{self.options}",
                          SB(integ is not None and [bool(t) for t in np.asarray(integ).ravel()] == exp)))
        # --- options
        opts = out["options"] or {}
        key = "maxfun" if self.method == "tnc" else "maxiter"
        props.append((f"max_iterations_reaches_the_backend.options_{self.options}", SB(opts.get(key) == self.max_iter)))
        if out["kind"] == "minimize":
            props.append(("tolerance_forwarded", SB(kw.get("tol") == 1e-5)))
            x0p = np.asarray(vals(kw["x0"]), dtype=object)
            props.append(("x0_is_free_part_of_initial_values", SB(x0p.shape == (len(free),)) if x0p.shape != (len(free),) else
                          all_of(exact(x0p[i], inp["x0"][j]) for i, j in enumerate(free))))
        # --- constraints
        rows = self.retained_linear()
        lin_val = {i: ssum([inp["coef"][i, j] * x[free.index(j)] for j in free]) for i in rows}
        cfg_ok = []
        for k in range(len(self.nkinds)):
            cfg_ok.append(And(inp["g"][k] >= inp["nlo"][k], inp["g"][k] <= inp["nhi"][k]))
        for i in rows:
            cfg_ok.append(And(lin_val[i] >= inp["llo"][i], lin_val[i] <= inp["lhi"][i]))
        cfg_feasible = And(*cfg_ok) if cfg_ok else SB(True)
        if out["kind"] == "minimize":
            sc = []
            for (typ, v), jac in zip(out["vals"], out["jacs"]):
                v = np.atleast_1d(np.asarray(vals(v), dtype=object)).ravel()[0]
                sc.append(v == 0 if typ == "eq" else v >= 0)
            props.append(("scipy_feasible_iff_configured_feasible", Iff(And(*sc) if sc else SB(True), cfg_feasible)))
            # second point: linear rows must be re-evaluated there (non-linear raw values are the callback's)
            if out["vals2"]:
                x2 = inp["x2"]
                lin_val2 = {i: ssum([inp["coef"][i, j] * x2[free.index(j)] for j in free]) for i in rows}
                sc2 = []
                for (typ, v) in out["vals2"]:
                    v = np.atleast_1d(np.asarray(vals(v), dtype=object)).ravel()[0]
                    sc2.append(v == 0 if typ == "eq" else v >= 0)
                ok2 = [And(inp["g"][k] >= inp["nlo"][k], inp["g"][k] <= inp["nhi"][k]) for k in range(len(self.nkinds))]
                ok2 += [And(lin_val2[i] >= inp["llo"][i], lin_val2[i] <= inp["lhi"][i]) for i in rows]
                props.append(("second_point.scipy_feasible_iff_configured_feasible",
                              Iff(And(*sc2) if sc2 else SB(True), And(*ok2) if ok2 else SB(True))))
            props.append(("canary:all_inequalities_are_lower_bounds",
                          Iff(And(*sc) if sc else SB(True),
                              And(*([inp["g"][k] >= inp["nlo"][k] for k in range(len(self.nkinds)) if inp["nlo"][k].inf == 0] or [SB(True)])))))
            # Jacobian rows: derivative of the value with the same sign
            raw_rows = [list(inp["J"][1 + k]) for k in range(len(self.nkinds))] + \
                       [[inp["coef"][i, j] for j in free] for i in rows]
            raw_vals = [inp["g"][k] for k in range(len(self.nkinds))] + [lin_val[i] for i in rows]
            rhs_lo = list(inp["nlo"]) + [inp["llo"][i] for i in rows]
            rhs_hi = list(inp["nhi"]) + [inp["lhi"][i] for i in rows]
            for ci, ((typ, v), jac) in enumerate(zip(out["vals"], out["jacs"])):
                v = np.atleast_1d(np.asarray(vals(v), dtype=object)).ravel()[0]
                # which raw constraint and sign does this normalised row use?
                match = []
                for q in range(len(raw_vals)):
                    for sgn, rhs in ((1, rhs_lo[q]), (-1, rhs_hi[q])):
                        if rhs.inf:
                            continue
                        cond = close(v, (raw_vals[q] - rhs) * sgn)
                        if jac is not None:
                            jv = np.asarray(vals(jac), dtype=object).ravel()
                            cond = And(cond, SB(len(jv) == len(free)), *[close(jv[t], raw_rows[q][t] * sgn) for t in range(min(len(jv), len(free)))])
                        match.append(cond)
                props.append((f"constraint{ci}.value_and_jacobian_are_one_signed_raw_row", Or(*match) if match else SB(False)))
        else:
            nl, lin = out.get("nl"), out.get("lin")
            props.append(("nonlinear_object_iff_configured", SB((nl is not None) == bool(self.nkinds))))
            props.append(("linear_object_iff_configured", SB((lin is not None) == bool(self.lkinds))))
            if nl is not None:
                lb, ub = np.asarray(vals(nl.kw["lb"]), dtype=object), np.asarray(vals(nl.kw["ub"]), dtype=object)
                fv = np.asarray(vals(out["nl_fun"]), dtype=object).ravel()
                for k in range(len(self.nkinds)):
                    props.append((f"nonlinear{k}.bounds_and_value",
                                  And(exact(lb[k], inp["nlo"][k]), exact(ub[k], inp["nhi"][k]), exact(fv[k], inp["g"][k]))))
            if lin is not None:
                A = np.asarray(vals(lin.args[0]), dtype=object)
                lo, hi = np.asarray(vals(lin.args[1]), dtype=object), np.asarray(vals(lin.args[2]), dtype=object)
                props.append(("linear.retained_row_count", SB(A.shape == (len(rows), len(free)))))
                if A.shape == (len(rows), len(free)):
                    for q, i in enumerate(rows):
                        props.append((f"linear{i}.restated_on_free_variables",
                                      And(exact(lo[q], inp["llo"][i]), exact(hi[q], inp["lhi"][i]),
                                          *[exact(A[q, t], inp["coef"][i, j]) for t, j in enumerate(free)])))
        return props

    def observe(self, env, inp, oc):
        return {}


def build_cases(tier):
    cases = []
    k = 0

    def add(**kw):
        nonlocal k
        k += 1
        cases.append(ProblemCase(f"c08-{k:03d}", **kw))

    nl_kinds = ("eq", "lower", "upper", "both")
    # every pair of non-linear kinds, with one linear constraint of each kind, for the constrained methods
    for m in ("slsqp", "cobyla", "differential_evolution"):
        vb = "none" if m == "cobyla" else "both"
        for pair in itertools.product(nl_kinds, repeat=2):
            add(method=m, nkinds=pair, var_bounds=vb)
        for lk in KINDS:
            add(method=m, nkinds=("lower",), lkinds=(lk,), var_bounds=vb)
        add(method=m, nkinds=("both", "none"), lkinds=("upper", "eq") if m != "cobyla" else ("upper", "both"), var_bounds=vb)
        add(method=m, nkinds=("none", "lower"), var_bounds=vb)        # an unbounded constraint produces no row: later rows are renumbered
        add(method=m, nkinds=("none", "lower", "lower"), lkinds=("none", "lower"), var_bounds=vb)
    # masks: rows touching a fixed variable are dropped, the rest restated on the free variables
    for m in ("slsqp", "differential_evolution"):
        add(method=m, N=3, mask=(True, False, True), lkinds=("both", "upper", "eq"),
            lin_zero=[[False, True, False], [False, False, False], [True, True, False]])
        add(method=m, N=3, mask=(False, True, True), nkinds=("upper",), lkinds=("lower",), lin_zero=[[True, False, False]])
    # options forwarding
    for m in ("slsqp", "tnc", "nelder-mead", "l-bfgs-b", "cobyla", "differential_evolution", "bfgs"):
        for o in ("none", "empty", "dict", "own"):
            add(method=m, options=o, var_bounds="none" if m in ("bfgs", "cobyla") else "both")
    # unsupported kinds
    for m in ("l-bfgs-b", "nelder-mead", "bfgs", "powell"):
        add(method=m, nkinds=("lower",), var_bounds="none" if m == "bfgs" else "both")
        add(method=m, lkinds=("eq",), var_bounds="none" if m == "bfgs" else "both")
    add(method="bfgs", var_bounds="both")
    add(method="cobyla", var_bounds="both")
    add(method="differential_evolution", var_bounds="none")
    for o in ("empty", "dict", "none"):   # integer variables, one of them fixed
        add(method="differential_evolution", N=3, mask=(True, False, True), types=(1, 2, 2), options=o)
    add(method="differential_evolution", N=2, types=(2, 1), options="empty")
    for vb in ("lower", "upper"):
        add(method="slsqp", var_bounds=vb, nkinds=("both",))
    if tier == "thorough":
        for m in ("slsqp", "cobyla", "differential_evolution"):
            for trip in itertools.product(KINDS, repeat=3):
                add(method=m, nkinds=trip, lkinds=trip[::-1], var_bounds="none" if m == "cobyla" else "both")
    return cases


META = dict(
    bounds={"quick": "2 non-linear constraints with every pair of kinds x {slsqp, cobyla, differential_evolution}; 1-2 linear constraints of every kind; masks on 3 variables; options in {None, {}, dict} x 7 methods; values in [-100,100]",
            "thorough": "3 non-linear + 3 linear constraints with every kind triple (125) x 3 methods",
            "outside": "what SciPy's algorithms do with the problem; larger constraint sets"},
    stubs=["scipy.optimize.minimize / differential_evolution / Bounds / LinearConstraint / NonlinearConstraint: recorders capturing exactly what ropt passes",
           "optimizer callback: returns symbolic raw constraint values and Jacobian rows for the requested point"],
    assumptions=["two-sided bounds differ by at least 1e-3 (the code's equality test is |ub-lb| < 1e-15)",
                 "sets consisting only of unbounded (or unbounded plus equality) constraints are not judged for rejection"],
)
