"""C02 - the stochastic gradient is exact on affine ensembles and zero on fixed variables.

L1 (kernel): _invert_linear_equations with np.linalg.svd stubbed by exact rational orthogonal factors
    and *symbolic* singular values: under the conditioning premise every component is kept and M a -> a.
L2 (pipeline): EnsembleEvaluator.calculate(x, functions+gradients) with injected concrete designs
    (so NumPy's real SVD runs on concrete delta matrices); symbolic slopes, offsets, weights, failures.
"""
from __future__ import annotations

import itertools
import os
from fractions import Fraction

import numpy as np

from symnp import SymArray
from .common import And, Case, Implies, Not, Or, SB, SR, all_of, clone_config, close, exact, inject, isnan, ite, ssum, vals
from . import ens
from .ens import ONE, ZERO

SL = 1000  # slope bound
GT = Fraction(1, 10**6)


def gclose(out, spec, scale):
    """|out - spec| <= 1e-6 * (1 + scale): absorbs the float pseudo-inverse (design section 3/C02)"""
    from symnp.core import b_and, b_not
    out, spec = out if isinstance(out, SR) else SR(out), spec
    d = out - spec
    lim = SR(GT) * (ONE + scale)
    return And(Not(isnan(out)), abs(SR(d.v)) <= lim)


class GradientCase(Case):
    family = "gradient"

    def __init__(self, cid, *, N, R, P, K=1, C=0, mask=None, design="random", shared=False, seed=0, pmin=1, rmin=1,
                 merge=False, estimators=("mean",), obj_est=None, con_est=None, weights=None, symflags="all",
                 boundary="truncate_both", lower=-100.0, upper=100.0, x=None, magnitude=0.1, split=False,
                 identical=False, sampler_map=None, filters=(), obj_filt=None, nan_col=None):
        self.id = cid
        if nan_col == "last":   # failures show up in the last function (a constraint when C > 0) only
            self.nan_col = lambda r, p, _f=K + C - 1: _f
        self.N, self.R, self.P, self.K, self.C = N, R, P, K, C
        self.mask = list(mask) if mask is not None else None
        self.free = [j for j in range(N) if mask is None or mask[j]]
        self.merge, self.estimators, self.obj_est, self.con_est = merge, estimators, obj_est, con_est
        self.pmin, self.rmin, self.split, self.identical = pmin, rmin, split, identical
        self.weights = weights  # concrete weights (needed for merged estimation) or None = symbolic
        self.symflags = symflags
        self.family = "gradient/merged" if merge else ("gradient/stddev" if "stddev" in estimators else "gradient/mean")
        rng = np.random.default_rng([seed, N, R, P, 77])
        if design == "random":
            D = rng.uniform(-1, 1, (1 if shared else R, P, N))
        elif design == "axes":  # deterministic +-e_j design
            D = np.zeros((1 if shared else R, P, N))
            for r in range(D.shape[0]):
                for p in range(P):
                    D[r, p, self.free[p % len(self.free)]] = 1.0 if (p // len(self.free) + r) % 2 == 0 else -1.0
        elif design == "normal":
            D = rng.standard_normal((1 if shared else R, P, N))
        else:
            raise ValueError(design)
        D = np.round(D * 64) / 64  # short dyadic rationals keep the exact arithmetic small
        D[D == 0] = 1.0 / 64       # every variable would move if a sampler were (wrongly) given it
        if shared:  # real samplers hand out the shared block once per realization
            D = np.repeat(D, R, axis=0)
        self.shared_design = shared
        self.design = D
        self.xv = np.array(x if x is not None else np.round(rng.uniform(-1, 1, N) * 16) / 16, dtype=float)
        self.cfg0 = ens.ensemble_config(
            N=N, R=R, P=P, K=K, C=C, mask=mask, lower=lower, upper=upper, x0=list(self.xv), magnitudes=magnitude,
            boundary=boundary, pmin=pmin, rmin=rmin, merge=merge, estimators=estimators, obj_est=obj_est, con_est=con_est,
            samplers=[{"method": "stub/x", "shared": shared}] if sampler_map is None else
            [{"method": f"stub/s{i}", "shared": shared} for i in range(max(sampler_map) + 1)],
            sampler_map=sampler_map, filters=filters, obj_filt=obj_filt,
        )
        self.filters, self.obj_filt = filters, obj_filt
        # the deltas the real code will see (concrete): computed by the real _perturb_variables at run time;
        # here only for the conditioning premise, recomputed from the reported perturbed variables in props

    def describe(self):
        return (f"N={self.N} mask={self.mask} R={self.R} P={self.P} K={self.K} C={self.C} merge={self.merge} "
                f"est={self.estimators}/{self.obj_est}/{self.con_est} pmin={self.pmin} rmin={self.rmin} "
                f"weights={'concrete' if self.weights is not None else 'symbolic'} flags={self.symflags} split={self.split}")

    # ---- inputs
    def flag_keys(self):
        R, P = self.R, self.P
        allk = [(r, p) for r in range(R) for p in [-1] + list(range(P))]
        if self.symflags == "all":
            return allk
        if self.symflags == "none":
            return []
        if self.symflags == "r0":
            return [(0, p) for p in [-1] + list(range(P))]
        if self.symflags == "perturbations":
            return [(r, p) for r in range(R) for p in range(P)]
        if self.symflags == "unperturbed":
            return [(r, -1) for r in range(R)]
        raise ValueError(self.symflags)

    def inputs(self, env):
        N, R, P, K, C = self.N, self.R, self.P, self.K, self.C
        F = K + C
        if self.weights is None:
            w = env.reals("w", R, lo=0, hi=1)
            env.assume(ssum(list(w)) == 1)
        else:
            w = np.array([SR(Fraction(x)) for x in self.weights], dtype=object)
        ow = env.reals("ow", K, lo=0, hi=1)
        env.assume(ssum(list(ow)) == 1)
        if self.identical:
            A1 = env.reals("a", (1, F, N), lo=-SL, hi=SL)
            c1 = env.reals("c", (1, F), lo=-SL, hi=SL)
            A = np.repeat(A1, R, axis=0)
            c = np.repeat(c1, R, axis=0)
        else:
            A = env.reals("a", (R, F, N), lo=-SL, hi=SL)
            c = env.reals("c", (R, F), lo=-SL, hi=SL)
        flags = {k: env.flag(f"nan_{k[0]}_{'u' if k[1] < 0 else k[1]}") for k in self.flag_keys()}
        return {"w": w, "ow": ow, "A": A, "c": c, "flags": flags, "pmin": self.pmin, "rmin": self.rmin}

    # ---- the real code
    def run(self, env, inp):
        from ropt.ensemble_evaluator import EnsembleEvaluator

        cfg = clone_config(self.cfg0)
        inject(cfg.realizations, weights=env.arr(inp["w"], writeable=False))
        inject(cfg.objectives, weights=env.arr(inp["ow"], writeable=False))
        pm = ens.stub_manager()
        def samples(sampler):
            # the sampler contract (C17): zero outside the variables ropt assigned to this sampler
            a = self.design.copy()
            if sampler.mask is not None:
                a[..., ~np.asarray(sampler.mask)] = 0.0
            return env.const(a)

        ens.set_samples(samples)
        if not isinstance(inp["pmin"], int):
            inject(cfg.gradient, perturbation_min_success=env.num(inp["pmin"]))
        if not isinstance(inp["rmin"], int):
            inject(cfg.realizations, realization_min_success=env.num(inp["rmin"]))
        ev = ens.AffineEvaluator(env, inp["A"], inp["c"], inp["flags"], self.K, nan_col=getattr(self, "nan_col", None))
        ee = EnsembleEvaluator(cfg, None, ev, pm)
        x = env.const(self.xv)
        if self.split == "moved":
            # functions at x, then a gradient-only request at a point that differs from x in a *fixed* variable
            # only (a nested plan moves it): nothing cached for x may be used
            x2v = self.xv.copy()
            x2v[[j for j in range(self.N) if j not in self.free][0]] += 0.5
            (fr,) = ee.calculate(x, compute_functions=True, compute_gradients=False)
            res = ee.calculate(env.const(x2v), compute_functions=False, compute_gradients=True)
            gr = [r for r in res if hasattr(r, "gradients")][0]
            fr = [r for r in res if hasattr(r, "functions")]
            fr = fr[0] if fr else None
            if fr is None:   # the props need a function result for the same point
                (fr,) = EnsembleEvaluator(cfg, None, ev, pm).calculate(env.const(x2v), compute_functions=True, compute_gradients=False)
        elif self.split:
            (fr,) = ee.calculate(x, compute_functions=True, compute_gradients=False)
            (gr,) = ee.calculate(x, compute_functions=False, compute_gradients=True)
        else:
            fr, gr = ee.calculate(x, compute_functions=True, compute_gradients=True)
        return {"f": fr, "g": gr, "calls": ev.calls}

    # ---- the property
    def props(self, env, inp, oc):
        if not oc.ok:
            from .common import too_few
            if too_few(oc.exc) and ("stddev" in self.estimators or self.filters):
                return [("abort_is_too_few_realizations", SB(True))]
            return [("no_internal_exception:" + type(oc.exc).__name__, SB(False))]
        N, R, P, K, C = self.N, self.R, self.P, self.K, self.C
        w, ow, A, c, flags = list(inp["w"]), list(inp["ow"]), inp["A"], inp["c"], inp["flags"]
        fr, gr = oc.value["f"], oc.value["g"]
        props = []
        pmin, rmin = inp["pmin"], inp["rmin"]
        pminr = pmin if isinstance(pmin, int) else pmin._real()
        rminr = rmin if isinstance(rmin, int) else rmin._real()
        failed = ens.fail_flags_gradients(flags, R, P, pminr)
        rf = vals(gr.realizations.failed_realizations)
        props.append(("gradient.failed_flags", all_of(rf[r] == failed[r] for r in range(R))))
        ffailed0 = ens.fail_flags_functions(flags, R)
        rff = vals(fr.realizations.failed_realizations)
        props.append(("function.failed_flags", all_of(rff[r] == ffailed0[r] for r in range(R))))
        fnok = ssum([ite(x, ZERO, ONE) for x in ffailed0])
        props.append(("function.none_iff_too_few", (fnok < rminr) if fr.functions is None else (fnok >= rminr)))
        nok = ssum([ite(x, ZERO, ONE) for x in failed])
        if gr.gradients is None:
            props.append(("gradient.none_iff_too_few", nok < rminr))
            return props
        props.append(("gradient.none_iff_too_few", nok >= rminr))
        # concrete perturbation differences as reported
        pv = np.asarray(vals(gr.evaluations.perturbed_variables))
        xv = np.asarray(vals(gr.evaluations.variables))
        delta = np.array([[[(pv[r, p, j] - xv[j]).to_float() for j in self.free] for p in range(P)] for r in range(R)])
        we = [ite(failed[r], ZERO, w[r]) for r in range(R)]
        tot = ssum(we)
        wn = [x / tot for x in we]
        rows_w = vals(gr.realizations.objective_weights)
        if self.merge:
            premise = self.merged_premise(delta, flags, we)
        else:
            premise = And(tot > 0, *[Implies(we[r] > 0, ens.conditioning_premise(delta[r], flags, r, P)) for r in range(R)])
        og = vals(gr.gradients.objectives)
        cg = vals(gr.gradients.constraints)
        fobj = vals(fr.functions.objectives) if fr.functions is not None else None
        fcon = vals(fr.functions.constraints) if fr.functions is not None and fr.functions.constraints is not None else None
        for kind, n, g, est, off, fvals in (("obj", K, og, self.obj_est, 0, fobj), ("con", C, cg, self.con_est, K, fcon)):
            for k in range(n):
                method = self.estimators[est[k]] if est is not None else self.estimators[0]
                f = off + k
                for j in range(N):
                    out = g[k, j]
                    if j not in self.free:
                        props.append((f"{kind}{k}.v{j}.fixed_variable_is_zero", exact(out, ZERO)))
                        continue
                    if method in ("mean", "default"):
                        wnk, prem_k = wn, premise
                        if kind == "obj" and rows_w is not None and self.obj_filt is not None and self.obj_filt[k] >= 0:
                            # a filtered objective: the weights in force are the reported filter row (C04/C05 decide it)
                            wek = [ite(failed[r], ZERO, rows_w[k, r]) for r in range(R)]
                            totk = ssum(wek)
                            wnk = [x / totk for x in wek]
                            prem_k = And(totk > 0, *[Implies(wek[r] > 0, ens.conditioning_premise(delta[r], flags, r, P)) for r in range(R)])
                        spec = ssum([wnk[r] * A[r, f, j] for r in range(R)])
                        props.append((f"{kind}{k}.v{j}.mean_gradient", Implies(prem_k, gclose(out, spec, SR(Fraction(SL))))))
                        if self.merge and self.shared_design:
                            # recorded finding: the merged solve returns the exact gradient divided by the number
                            # of contributing realizations.  Anything else is still a violation.
                            nact = ssum([ite(x > 0, ONE, ZERO) for x in we])
                            props.append((f"{kind}{k}.v{j}.mean_gradient_exact_or_known_scaling",
                                          Implies(premise, Or(gclose(out, spec, SR(Fraction(SL))),
                                                              gclose(out * nact, spec, SR(Fraction(SL)))))))
                        if kind == "obj" and k == 0 and j == self.free[0]:
                            props.append(("canary:half_gradient", Implies(premise, gclose(out, spec * Fraction(1, 2), SR(Fraction(SL))))))
                    else:
                        # chain rule of the sample standard deviation, S taken from the reported function value
                        if fvals is None:
                            continue
                        S = fvals[k]
                        if S.inf or out.inf:
                            continue
                        fx = [c[r, f] + ssum([A[r, f, i] * SR(Fraction(float(self.xv[i]))) for i in range(N)]) for r in range(R)]
                        m = ssum([wn[r] * fx[r] for r in range(R)])
                        mg = ssum([wn[r] * A[r, f, j] for r in range(R)])
                        npos = ssum([ite(x > 0, ONE, ZERO) for x in we])
                        rhs = (npos / (npos - 1)) * ssum([wn[r] * (fx[r] - m) * (A[r, f, j] - mg) for r in range(R)])
                        # failed realizations for the *function* may be fewer than for the gradient: S is then
                        # another quantity; compare only when both agree
                        ffailed = ens.fail_flags_functions(flags, R)
                        same_set = all_of(ffailed[r] == failed[r] for r in range(R))
                        props.append((f"{kind}{k}.v{j}.stddev_gradient",
                                      Implies(And(premise, same_set, npos >= 2, S > Fraction(1, 100)),
                                              gclose(out * S, rhs, SR(Fraction(SL * SL))))))
        wg = vals(gr.gradients.weighted_objective)
        for j in range(N):
            if j not in self.free:
                props.append((f"weighted.v{j}.fixed_variable_is_zero", exact(wg[j], ZERO)))
            else:
                spec = ssum([ow[k] * SR(og[k, j].v) for k in range(K)])
                props.append((f"weighted.v{j}.is_objective_weighted_sum",
                              Implies(Not(Or(*[isnan(og[k, j]) for k in range(K)])), close(wg[j], spec))))
        return props

    def merged_premise(self, delta, flags, we):
        """Merged estimation is claimed for shared perturbations or identical realizations; the stacked
        matrix of the rows that take part must be well conditioned.  Weights are concrete here."""
        R, P = self.R, self.P
        shared = all(np.array_equal(delta[r], delta[0]) for r in range(R))
        if not (shared or self.identical):
            return SB(False)
        terms = []
        keys = [(r, p) for r in range(R) for p in range(P)]
        active = [r for r in range(R)]
        for S in itertools.product([False, True], repeat=len(keys)):
            ok = dict(zip(keys, S))
            # rows taking part: successful perturbations (realization activity is decided symbolically below)
            rows_by_r = {r: [p for p in range(P) if ok[(r, p)]] for r in range(R)}
            if shared and not self.identical:
                # exactness with distinct realizations needs every active realization to contribute the same rows
                if len({tuple(v) for v in rows_by_r.values()}) != 1:
                    continue
            stack = [np.sqrt(float(self.weights[r])) * delta[r][rows_by_r[r], :] for r in range(R) if self.weights[r] > 0 and rows_by_r[r]]
            if not stack or not ens.well_conditioned(np.vstack(stack)):
                continue
            terms.append(And(*[(Not(flags.get(k, SB(False))) if ok[k] else flags.get(k, SB(False))) for k in keys]))
        fail_unpert = Or(*[flags.get((r, -1), SB(False)) for r in range(R)])
        return And(Or(*terms) if terms else SB(False), Not(fail_unpert))

    def observe(self, env, inp, oc):
        if not oc.ok or oc.value["g"].gradients is None:
            return {}
        return {"og": oc.value["g"].gradients.objectives, "failed": oc.value["g"].realizations.failed_realizations}


class KernelCase(Case):
    """L1: the truncated-SVD solve with symbolic singular values."""

    family = "gradient/svd-kernel"
    # exact rational orthogonal matrices (Pythagorean rotations)
    ROT = {
        1: [[Fraction(1)]],
        2: [[Fraction(3, 5), Fraction(-4, 5)], [Fraction(4, 5), Fraction(3, 5)]],
        3: [[Fraction(2, 3), Fraction(-1, 3), Fraction(2, 3)], [Fraction(2, 3), Fraction(2, 3), Fraction(-1, 3)],
            [Fraction(-1, 3), Fraction(2, 3), Fraction(2, 3)]],
        4: [[Fraction(1, 2), Fraction(1, 2), Fraction(1, 2), Fraction(1, 2)], [Fraction(1, 2), Fraction(-1, 2), Fraction(1, 2), Fraction(-1, 2)],
            [Fraction(1, 2), Fraction(1, 2), Fraction(-1, 2), Fraction(-1, 2)], [Fraction(1, 2), Fraction(-1, 2), Fraction(-1, 2), Fraction(1, 2)]],
    }

    def __init__(self, cid, m, n):
        self.id, self.m, self.n = cid, m, n

    def describe(self):
        return f"_invert_linear_equations {self.m}x{self.n}, symbolic singular values"

    def inputs(self, env):
        n = self.n
        sig = env.reals("sigma", n, lo=0, hi=100)
        for i in range(n):
            env.assume(sig[i] > 0)
            if i:
                env.assume(sig[i - 1] >= sig[i])
        tot = ssum([s * s for s in sig])
        env.assume(sig[n - 1] * sig[n - 1] * 100 >= tot)  # the conditioning premise
        a = env.reals("a", n, lo=-SL, hi=SL)
        return {"sigma": sig, "a": a}

    def run(self, env, inp):
        import ropt.ensemble_evaluator._gradient as G

        m, n = self.m, self.n
        U = np.array(self.ROT[m], dtype=object)
        V = np.array(self.ROT[n], dtype=object)
        sig = inp["sigma"]
        if env.sym:
            Ua = SymArray(np.array([[SR(x) for x in row] for row in U], dtype=object))
            Va = SymArray(np.array([[SR(x) for x in row] for row in V], dtype=object))
            # M = U[:, :n] diag(sigma) V ; vector = M a
            M = [[ssum([Ua.a[i, k] * sig[k] * Va.a[k, j] for k in range(n)]) for j in range(n)] for i in range(m)]
            vec = SymArray(np.array([ssum([M[i][j] * inp["a"][j] for j in range(n)]) for i in range(m)], dtype=object))
            Ma = SymArray(np.array(M, dtype=object))
            real_svd = np.linalg.svd
            from symnp.array import HANDLED
            old = HANDLED[np.linalg.svd]
            HANDLED[np.linalg.svd] = lambda mat, **kw: (Ua, SymArray(np.array(list(sig), dtype=object)), Va)
            try:
                return G._invert_linear_equations(Ma, vec)
            finally:
                HANDLED[np.linalg.svd] = old
        Uf = np.array([[float(x) for x in row] for row in U])
        Vf = np.array([[float(x) for x in row] for row in V])
        s = np.array([x.to_float() for x in sig])
        M = Uf[:, :n] @ np.diag(s) @ Vf
        a = np.array([x.to_float() for x in inp["a"]])
        return G._invert_linear_equations(M, M @ a)

    def props(self, env, inp, oc):
        if not oc.ok:
            return [("no_internal_exception:" + type(oc.exc).__name__, SB(False))]
        out = vals(oc.value)
        return [(f"x{j}.recovered", gclose(out[j], inp["a"][j], SR(Fraction(SL)))) for j in range(self.n)]

    def observe(self, env, inp, oc):
        return {}


def build_cases(tier):
    cases = []
    k = 0
    seed = int(os.environ.get("VERIF_SEED", "0") or 0)

    def add(cls=GradientCase, **kw):
        nonlocal k
        k += 1
        if cls is GradientCase:
            kw.setdefault("seed", seed)
        cases.append(cls(f"c02-{k:03d}", **kw))

    for m, n in ((1, 1), (2, 1), (2, 2), (3, 2), (3, 3), (4, 2), (4, 3)):
        add(KernelCase, m=m, n=n)
    # per-realization estimation
    add(N=2, R=2, P=3, symflags="all")
    add(N=2, R=2, P=3, K=2, C=1, symflags="r0", pmin=2)
    add(N=3, R=2, P=4, mask=(True, False, True), symflags="perturbations", design="normal")
    add(N=2, R=3, P=2, symflags="unperturbed", design="axes")
    add(N=2, R=2, P=3, symflags="r0", shared=True, split=True)
    add(N=3, R=2, P=3, mask=(True, False, True), sampler_map=(0, 0, 1), symflags="unperturbed")
    add(N=3, R=2, P=3, mask=(True, False, True), symflags="none", split="moved")   # only a fixed variable moved since the cached functions
    add(N=3, R=2, P=3, mask=(False, True, True), sampler_map=(1, 0, 1), symflags="none", K=2)
    add(N=2, R=2, P=2, symflags="all", boundary="mirror_both", lower=-0.05, upper=0.05, x=(0.0, 0.03), magnitude=0.1)
    # a realization that fails in a constraint value only; constraints outnumbering objectives
    add(N=2, R=2, P=3, K=1, C=2, symflags="all", nan_col="last")
    # objectives and constraints mapped to different estimators
    add(N=1, R=2, P=2, K=2, C=1, estimators=("mean", "stddev"), obj_est=(1, 0), con_est=(0,), symflags="unperturbed",
        weights=(Fraction(2, 3), Fraction(1, 3)))
    # stddev chain rule
    # (concrete weights: with symbolic weights the sqrt axioms make even path feasibility a hard NRA problem)
    add(N=2, R=2, P=2, estimators=("stddev",), symflags="none", design="axes", weights=(Fraction(1, 4), Fraction(3, 4)))
    add(N=1, R=2, P=2, K=2, estimators=("mean", "stddev"), obj_est=(0, 1), symflags="unperturbed", weights=(Fraction(2, 3), Fraction(1, 3)))
    # merged estimation (concrete weights: the weighted stacked matrix must be concrete for the SVD)
    add(N=2, R=2, P=3, merge=True, shared=True, weights=(Fraction(1, 4), Fraction(3, 4)), symflags="unperturbed")
    add(N=2, R=3, P=2, merge=True, shared=True, weights=(Fraction(1, 2), Fraction(1, 4), Fraction(1, 4)), symflags="none")
    add(N=2, R=2, P=3, merge=True, identical=True, weights=(Fraction(1, 4), Fraction(3, 4)), symflags="perturbations")
    # a realization lost in the gradient phase only, with the standard-deviation estimator (metamorphic harness of C03)
    from .c03 import MetamorphicCase
    add(MetamorphicCase, N=1, R=3, P=2, failed=(False, False, False), failed_by_count=(1,), pmin=2, estimators=("stddev",), seed=seed,
        weights=(Fraction(1, 2), Fraction(1, 4), Fraction(1, 4)))
    if tier == "thorough":
        for s in range(1, 4):
            add(N=2, R=2, P=3, symflags="all", seed=seed + s, design=("random", "normal")[s % 2])
            add(N=3, R=2, P=4, K=2, symflags="r0", seed=seed + s, mask=(True, True, False))
            add(N=2, R=2, P=3, merge=True, shared=True, weights=(Fraction(1, 3), Fraction(2, 3)), symflags="all", seed=seed + s)
        add(N=3, R=3, P=3, symflags="r0", pmin=3)
        add(N=3, R=3, P=4, K=2, C=1, symflags="perturbations", pmin=2, rmin=2)
        # (stddev gradients stay at R=2: for R=3 the obligations take >20 min per case, two stay `unknown`, and the
        #  near-zero-variance branch has no witness that survives float rounding)
        add(N=2, R=2, P=3, estimators=("stddev",), symflags="unperturbed", weights=(Fraction(1, 2), Fraction(1, 2)), design="normal")
        add(N=2, R=4, P=3, symflags="unperturbed")
        add(N=3, R=2, P=4, merge=True, identical=True, weights=(Fraction(1, 5), Fraction(4, 5)), symflags="all")
    return cases


META = dict(
    bounds={"quick": "L1: thin m x n systems m<=4, n<=3 with exact rational orthogonal factors and symbolic singular values; "
                     "L2: N<=3 variables, R<=3, P<=4, K<=2, C<=2, slopes/offsets in [-1000,1000], concrete designs drawn from VERIF_SEED",
            "thorough": "L2: 3 more seeds per shape, R<=4, P<=4, N<=3",
            "outside": "symbolic perturbation matrices (NumPy's SVD runs on concrete deltas: z3 NRA cannot encode the SVD contract for n>=2); "
                       "merged estimation with symbolic realization weights; standard-deviation gradients beyond R=2; rounding beyond 1e-6*(1+1000)"},
    stubs=["sampler plug-in `stub`: returns the concrete design (zero on fixed variables)",
           "evaluator: affine in the requested variables with symbolic slopes/offsets; NaN flag per (realization, unperturbed|perturbation)",
           "L1 only: np.linalg.svd replaced by exact rational orthogonal factors with symbolic singular values"],
    assumptions=["conditioning premise of the property, evaluated on the reported perturbation differences",
                 "merged estimation is claimed only for shared perturbations (same surviving rows) or identical realizations",
                 "stddev gradients: the reported standard deviation exceeds 0.01 and the function/gradient failure sets agree"],
    timeout_ms={"quick": 20000, "thorough": 60000},
    budget_s={"thorough": 7200},
)
