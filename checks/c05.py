"""C05 - the sort filter selects exactly the configured rank window of successful members.

Encoded: DefaultRealizationFilter.__init__/_check_range/get_realization_weights/_sort_objectives/
_sort_constraint/_sort_and_select, and (mapping cases) EnsembleEvaluator._calculate_filtered_realization_weights.
Symbolic: values, one failure flag per realization, configured weights, objective weights.
Enumerated: n, window, flavour, sort keys, filter maps.
"""
from __future__ import annotations

from fractions import Fraction

import numpy as np

from .common import (
    And, Case, Implies, Not, Or, RecordingEvaluator, SB, SR, all_of, clone_config, close, exact, inject, isnan,
    ite, make_config, plugin_manager, ssum, too_few, vals,
)

BOUND = 1000
ONE, ZERO = SR(Fraction(1)), SR(Fraction(0))


def count(conds):
    return ssum([ite(c, ONE, ZERO) for c in conds])


def sort_window_spec(v, failed, w, first, last, out):
    """Tie-robust statement of "weight_i = configured_i iff not failed and rank_i in [first,last]"."""
    n = len(v)
    P = []
    for i in range(n):
        lt = count([And(Not(failed[j]), SR(v[j].v) < SR(v[i].v)) for j in range(n) if j != i])
        le = count([And(Not(failed[j]), SR(v[j].v) <= SR(v[i].v)) for j in range(n) if j != i])
        inside = And(Not(failed[i]), lt >= first, le <= last)          # every admissible rank is in the window
        outside = Or(failed[i], le < first, lt > last)                 # no admissible rank is in the window
        P.append((i, inside, outside))
    props = []
    for i, inside, outside in P:
        props.append((f"w{i}.in_window_gets_configured_weight", Implies(inside, exact(out[i], w[i]))))
        props.append((f"w{i}.outside_window_or_failed_gets_zero", Implies(outside, exact(out[i], ZERO))))
        props.append((f"w{i}.zero_or_configured", Or(exact(out[i], ZERO), exact(out[i], w[i]))))
    # never more realizations than the window holds (ties must not widen the selection)
    props.append(("at_most_window_size_selected", count([Not(exact(out[i], ZERO)) for i in range(n)]) <= last - first + 1))
    return props, P


class SortCase(Case):
    family = "sort"

    def __init__(self, cid, *, n, first, last, kind="objective", K=1, sort=(0,), C=1, csort=0):
        self.id = cid
        self.n, self.first, self.last, self.kind, self.K, self.sort, self.C, self.csort = n, first, last, kind, K, sort, C, csort
        self.valid = 0 <= first <= last < n
        self.family = f"sort-{kind}" if self.valid else "sort/invalid-window"
        d = {
            "variables": {"initial_values": [0.0]},
            "objectives": {"weights": [1.0] * K},
            "realizations": {"weights": [1.0] * n, "realization_min_success": 0},
            "realization_filters": [{
                "method": f"sort-{kind}",
                "options": {"sort": list(sort) if kind == "objective" else csort, "first": first, "last": last},
            }],
        }
        if kind == "constraint":
            d["nonlinear_constraints"] = {"lower_bounds": [0.0] * C, "upper_bounds": [np.inf] * C}
        self.cfg0 = make_config(d)

    def describe(self):
        return f"sort-{self.kind} n={self.n} window=[{self.first},{self.last}] K={self.K} sort={self.sort}"

    def inputs(self, env):
        n = self.n
        w = env.reals("w", n, lo=0, hi=1)
        env.assume(ssum(list(w)) == 1)
        ow = env.reals("ow", self.K, lo=-1, hi=2)   # objective weights may be negative as long as they sum to one
        env.assume(ssum(list(ow)) == 1)
        failed = [env.flag(f"failed_{i}") for i in range(n)]
        f = env.reals("f", (n, self.K), lo=-BOUND, hi=BOUND)
        c = env.reals("c", (n, self.C), lo=-BOUND, hi=BOUND) if self.kind == "constraint" else None
        # the caller's contract: a failed realization is NaN in every column
        for i in range(n):
            for k in range(self.K):
                f[i, k] = SR(f[i, k].v, failed[i].t)
            if c is not None:
                for k in range(self.C):
                    c[i, k] = SR(c[i, k].v, failed[i].t)
        return {"w": w, "ow": ow, "failed": failed, "f": f, "c": c}

    def run(self, env, inp):
        from ropt.plugins.realization_filter.default import DefaultRealizationFilter

        cfg = clone_config(self.cfg0)
        inject(cfg.realizations, weights=env.arr(inp["w"], writeable=False))
        inject(cfg.objectives, weights=env.arr(inp["ow"], writeable=False))
        flt = DefaultRealizationFilter(cfg, 0)
        return flt.get_realization_weights(env.arr(inp["f"]), None if inp["c"] is None else env.arr(inp["c"]))

    def props(self, env, inp, oc):
        from ropt.exceptions import ConfigError

        if not self.valid:
            return [("invalid_window_rejected_at_configuration", SB(oc.kind == "exc" and isinstance(oc.exc, ConfigError)))]
        n = self.n
        w, ow, failed, f, c = list(inp["w"]), list(inp["ow"]), inp["failed"], inp["f"], inp["c"]
        if self.kind == "objective":
            if self.K > 1:
                v = [ssum([ow[k] * SR(f[i, k].v) for k in self.sort]) for i in range(n)]
            else:
                v = [SR(f[i, 0].v) for i in range(n)]
        else:
            v = [SR(c[i, self.csort].v) for i in range(n)]
        if not oc.ok:
            if not too_few(oc.exc):
                return [("no_internal_exception", SB(False))]
            # abort only if no realization that is certainly in the window has positive weight
            _, P = sort_window_spec(v, failed, w, self.first, self.last, [ZERO] * n)
            return [("abort_only_when_window_has_no_positive_weight",
                     Not(Or(*[And(inside, w[i] > 0) for i, inside, _ in P])))]
        out = vals(oc.value)
        props, P = sort_window_spec(v, failed, w, self.first, self.last, out)
        props.append(("shape", SB(out.shape == (n,))))
        props.append(("returns_only_with_positive_weight", Or(*[And(Not(outside), w[i] > 0) for i, _, outside in P])))
        props.append(("canary:window_shifted_by_one",
                      all_of(p for nme, p in sort_window_spec(v, failed, w, self.first + 1, self.last + 1, out)[0])))
        return props

    def observe(self, env, inp, oc):
        return {"weights": oc.value} if oc.ok else {}


class TwoRunsCase(Case):
    """Two optimizations in one process with the same filter options and ensemble size but other configured
    realization weights: each run's rows carry its own configured weights."""

    family = "sort/two-runs"

    def __init__(self, cid, R=3, first=0, last=1):
        self.id, self.R, self.first, self.last = cid, R, first, last
        self.cfg0 = make_config({
            "variables": {"initial_values": [0.0]},
            "objectives": {"weights": [1.0], "realization_filters": [0]},
            "realizations": {"weights": [1.0] * R, "realization_min_success": 0},
            "realization_filters": [{"method": "sort-objective", "options": {"sort": [0], "first": first, "last": last}}],
        })

    def describe(self):
        return f"sort-objective [{self.first},{self.last}], R={self.R}, two runs with different configured weights"

    def inputs(self, env):
        R = self.R
        out = {}
        for e in (0, 1):
            w = env.reals(f"w{e}", R, lo=0, hi=1)
            env.assume(ssum(list(w)) == 1)
            out[e] = {"w": w, "f": env.reals(f"f{e}", (R, 1), lo=-BOUND, hi=BOUND)}
        return out

    def run(self, env, inp):
        from ropt.ensemble_evaluator import EnsembleEvaluator
        from ropt.evaluator import EvaluatorResult
        out = []
        for e in (0, 1):
            cfg = clone_config(self.cfg0)
            inject(cfg.realizations, weights=env.arr(inp[e]["w"], writeable=False))
            ee = EnsembleEvaluator(cfg, None, lambda v, ctx, e=e: EvaluatorResult(objectives=env.arr(inp[e]["f"])), plugin_manager())
            try:
                (res,) = ee.calculate(env.const(np.zeros(1)), compute_functions=True, compute_gradients=False)
                out.append(res)
            except Exception as exc:  # noqa: BLE001
                if not too_few(exc):
                    raise
                out.append(None)
        return out

    def props(self, env, inp, oc):
        if not oc.ok:
            return [("no_internal_exception:" + type(oc.exc).__name__, SB(False))]
        props = []
        nofail = [SB(False)] * self.R
        for e, res in enumerate(oc.value):
            if res is None:
                continue
            row = list(vals(res.realizations.objective_weights)[0])
            v = [SR(inp[e]["f"][i, 0].v) for i in range(self.R)]
            ps, _ = sort_window_spec(v, nofail, list(inp[e]["w"]), self.first, self.last, row)
            props += [(f"run{e}.{n}", p) for n, p in ps]
        return props

    def observe(self, env, inp, oc):
        return {}


class MappingCase(Case):
    """Several filters mapped onto several objectives/constraints through the evaluator."""

    family = "sort/mapping"

    def __init__(self, cid, *, R, K, C, filters, obj_filt, con_filt, nan_in="objective"):
        self.id = cid
        self.nan_in = nan_in   # which column carries the NaN of a failed realization
        self.R, self.K, self.C, self.filters, self.obj_filt, self.con_filt = R, K, C, filters, obj_filt, con_filt
        d = {
            "variables": {"initial_values": [0.0]},
            "objectives": {"weights": [1.0] * K, "realization_filters": list(obj_filt)},
            "realizations": {"weights": [1.0] * R, "realization_min_success": 0},
            "realization_filters": list(filters),
        }
        if C:
            d["nonlinear_constraints"] = {"lower_bounds": [0.0] * C, "upper_bounds": [np.inf] * C,
                                          "realization_filters": list(con_filt)}
        self.cfg0 = make_config(d)

    def describe(self):
        return f"mapping R={self.R} K={self.K} C={self.C} filters={[(f['method'], f['options']) for f in self.filters]} obj={self.obj_filt} con={self.con_filt}"

    def inputs(self, env):
        R = self.R
        w = env.reals("w", R, lo=0, hi=1)
        env.assume(ssum(list(w)) == 1)
        ow = env.reals("ow", self.K, lo=-1, hi=2)   # objective weights may be negative as long as they sum to one
        env.assume(ssum(list(ow)) == 1)
        failed = [env.flag(f"failed_{i}") for i in range(R)]
        env.assume(Or(*[Not(x) for x in failed]))
        f = env.reals("f", (R, self.K), lo=-BOUND, hi=BOUND)
        c = env.reals("c", (R, self.C), lo=-BOUND, hi=BOUND) if self.C else None
        # one NaN entry fails the realization: put the NaN in a column chosen per realization
        for i in range(R):
            if self.nan_in == "constraint":
                c[i, self.C - 1] = SR(c[i, self.C - 1].v, failed[i].t)
            else:
                f[i, 0] = SR(f[i, 0].v, failed[i].t)
        return {"w": w, "ow": ow, "failed": failed, "f": f, "c": c}

    def run(self, env, inp):
        from ropt.ensemble_evaluator import EnsembleEvaluator
        from ropt.evaluator import EvaluatorResult

        cfg = clone_config(self.cfg0)
        inject(cfg.realizations, weights=env.arr(inp["w"], writeable=False))
        inject(cfg.objectives, weights=env.arr(inp["ow"], writeable=False))
        rec = RecordingEvaluator(lambda v, ctx, n: EvaluatorResult(
            objectives=env.arr(inp["f"]), constraints=None if inp["c"] is None else env.arr(inp["c"])))
        ee = EnsembleEvaluator(cfg, None, rec, plugin_manager())
        (res,) = ee.calculate(env.const(np.zeros(1)), compute_functions=True, compute_gradients=False)
        return res

    def _key(self, flt, inp, i):
        o = flt["options"]
        if flt["method"] == "sort-objective":
            ow, f = list(inp["ow"]), inp["f"]
            if self.K > 1:
                return ssum([ow[k] * SR(f[i, k].v) for k in o["sort"]])
            return SR(f[i, 0].v)
        return SR(inp["c"][i, o["sort"]].v)

    def props(self, env, inp, oc):
        R = self.R
        if not oc.ok:
            return [("abort_is_too_few_realizations", SB(too_few(oc.exc)))]
        res = oc.value
        w, failed = list(inp["w"]), inp["failed"]
        props = []
        for kind, n, rows, filt in (("obj", self.K, vals(res.realizations.objective_weights), self.obj_filt),
                                    ("con", self.C, vals(res.realizations.constraint_weights), self.con_filt)):
            for k in range(n):
                j = filt[k]
                row = list(rows[k])
                if j < 0:
                    props.append((f"{kind}{k}.unfiltered_row_is_configured", all_of(exact(row[r], w[r]) for r in range(R))))
                    continue
                flt = self.filters[j]
                v = [self._key(flt, inp, i) for i in range(R)]
                sp, _ = sort_window_spec(v, failed, w, flt["options"]["first"], flt["options"]["last"], row)
                props.extend((f"{kind}{k}.filter{j}.{nme}", p) for nme, p in sp)
        return props

    def observe(self, env, inp, oc):
        if not oc.ok:
            return {}
        out = {"ow": oc.value.realizations.objective_weights}
        if oc.value.realizations.constraint_weights is not None:
            out["cw"] = oc.value.realizations.constraint_weights
        return out


def build_cases(tier):
    cases = []
    k = 0

    def add(cls, **kw):
        nonlocal k
        k += 1
        cases.append(cls(f"c05-{k:03d}", **kw))

    ns = (2, 3) if tier == "quick" else (2, 3, 4)
    for n in ns:
        for first in range(n):
            for last in range(first, n):
                add(SortCase, n=n, first=first, last=last)
        add(SortCase, n=n, first=0, last=n - 1, kind="constraint", C=2, csort=1)
        add(SortCase, n=n, first=min(1, n - 1), last=n - 1, K=2, sort=(0, 1))
        add(SortCase, n=n, first=0, last=0, K=2, sort=(1,))
        # windows outside the ensemble are rejected at configuration time
        add(SortCase, n=n, first=0, last=n)
        add(SortCase, n=n, first=n, last=n)
        add(SortCase, n=n, first=1, last=0)
    if tier == "quick":
        add(SortCase, n=4, first=1, last=2)
        add(SortCase, n=4, first=0, last=1, kind="constraint", C=1, csort=0)
    else:
        add(SortCase, n=5, first=1, last=3)
        add(SortCase, n=6, first=2, last=4)      # all 720 orders of six values (the property's stated exhaustive bound)
        add(SortCase, n=4, first=1, last=2, kind="constraint", C=2, csort=0)
        add(SortCase, n=4, first=0, last=2, K=3, sort=(0, 2))
    so = lambda a, b, s=(0,): {"method": "sort-objective", "options": {"sort": list(s), "first": a, "last": b}}  # noqa: E731
    sc = lambda a, b, s=0: {"method": "sort-constraint", "options": {"sort": s, "first": a, "last": b}}  # noqa: E731
    add(MappingCase, R=3, K=2, C=1, filters=(so(0, 1), sc(1, 2)), obj_filt=(0, 1), con_filt=(1,))
    add(MappingCase, R=3, K=3, C=1, filters=(so(0, 0, (1,)), so(1, 2, (0, 2))), obj_filt=(1, -1, 0), con_filt=(0,))
    add(MappingCase, R=3, K=1, C=2, filters=(so(0, 1), sc(1, 2, 0)), obj_filt=(0,), con_filt=(1, -1), nan_in="constraint")   # a realization failing in its last constraint only
    add(MappingCase, R=3, K=2, C=0, filters=(so(0, 0), so(1, 2)), obj_filt=(1, -1), con_filt=())   # a configured filter nothing refers to comes first
    add(MappingCase, R=3, K=1, C=2, filters=(sc(0, 1, 0), sc(0, 1, 1)), obj_filt=(-1,), con_filt=(0, 1))   # two constraint filters see the same arrays
    add(MappingCase, R=3, K=2, C=1, filters=(so(0, 1), so(2, 2), sc(0, 0)), obj_filt=(2, 2), con_filt=(0,))
    add(TwoRunsCase)
    if tier == "thorough":
        add(MappingCase, R=3, K=2, C=2, filters=(so(0, 1), sc(0, 1, 1), so(2, 2, (1,))), obj_filt=(2, 0), con_filt=(-1, 1))
        add(MappingCase, R=4, K=2, C=1, filters=(so(1, 2), sc(0, 1)), obj_filt=(-1, 0), con_filt=(1,))
    return cases


META = dict(
    bounds={"quick": "n<=3 with every window 0<=first<=last<n, n=4 for two windows; K<=2 sort keys; values in [-1000,1000]",
            "thorough": "n<=4 with every window, n=5 and n=6 (all 720 orders, every failure mask) for one window each; K<=3; mapping cases up to 3 filters on 2+2 functions",
            "outside": "larger ensembles (argsort forks n! orders); NumPy's argsort tie order beyond 16 elements"},
    stubs=["evaluator (mapping cases): fresh symbols per (realization, function)"],
    assumptions=[
        "a failed realization is NaN in every column (established by _propagate_nan_values, which C03/C06 check)",
        "ties: a realization whose admissible ranks straddle the window edge may get either 0 or its configured weight",
        "configured weights are non-negative and sum to one (validated configuration)",
    ],
)
