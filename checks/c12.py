"""C12 - the tracked best result is the feasible optimum over the whole history.

Encoded: DefaultTrackerHandler.handle_event, _update_optimal_result, _get_new_optimal_result,
_violates_constraint, _get_last_result on real FunctionResults/GradientResults/ConstraintInfo/Event
objects whose numeric fields are symbolic.
Bounded histories from the initial state, and one step from an arbitrary valid tracker state
(a pre-held feasible non-NaN result), which is the inductive form.
BasicBestCase: BasicOptimizer.__init__/run/results/variables over the real optimizer step, ensemble evaluator,
ConstraintInfo and tracker.
"""
from __future__ import annotations

import itertools
import uuid
from fractions import Fraction

import numpy as np

from symnp import SymArray
from .common import And, Case, Implies, Not, Or, SB, SR, all_of, close, exact, isnan, ite, plugin_manager, ssum, vals

ZERO = SR(Fraction(0))


class TrackerCase(Case):
    family = "tracker"

    def __init__(self, cid, *, events, what="best", transform="none", tol=True, pre_held=False):
        """events: list of (tracked, [kind, ...]) with kind in F (function result), N (functions None), G (gradient)."""
        self.id = cid
        self.events, self.what, self.transform, self.tol, self.pre_held = events, what, transform, tol, pre_held
        self.family = f"tracker/{what}" + ("/maximize" if transform == "flip" else "")
        self.items = []  # (event index, position, kind, tracked)
        for e, (tracked, kinds) in enumerate(events):
            for p, k in enumerate(kinds):
                self.items.append((e, p, k, tracked))

    def describe(self):
        return f"what={self.what} transform={self.transform} tol={'symbolic' if self.tol else None} pre_held={self.pre_held} events={self.events}"

    def inputs(self, env):
        n = len(self.items) + (1 if self.pre_held else 0)
        u = [SR(env.real(f"u_{i}", -1000, 1000).v, env.flag(f"nan_{i}").t) for i in range(n)]
        viol = [env.real(f"viol_{i}", 0, 10) for i in range(n)]
        tol = env.real("tol", 0, 1) if self.tol else None
        k = env.real("k", Fraction(1, 100), 100) if self.transform != "none" else SR(Fraction(1))
        if self.pre_held:  # the invariant of the tracker state: the held result is feasible and not NaN
            h = n - 1
            env.assume(Not(isnan(u[h])))
            if tol is not None:
                env.assume(viol[h] <= tol)
        return {"u": u, "viol": viol, "tol": tol, "k": k}

    def opt_domain(self, inp, i):
        """objective in the domain the optimizer minimises"""
        s = {"none": 1, "scale": 1, "flip": -1}[self.transform]
        return SR(inp["u"][i].v) * inp["k"] * s

    def _mk(self, env, kind, obj, viol):
        from ropt.results import (ConstraintInfo, FunctionEvaluations, FunctionResults, Functions, GradientEvaluations,
                                  GradientResults, Gradients, Realizations)

        one = lambda v: env.arr(np.array([v], dtype=object))  # noqa: E731
        if kind == "G":
            return GradientResults(
                batch_id=None, metadata={},
                evaluations=GradientEvaluations.create(
                    variables=env.const(np.zeros(1)), perturbed_variables=env.const(np.zeros((1, 1, 1))),
                    perturbed_objectives=env.const(np.zeros((1, 1, 1)))),
                realizations=Realizations(failed_realizations=np.array([False])),
                gradients=Gradients.create(weighted_objective=env.const(np.zeros(1)), objectives=env.const(np.zeros((1, 1)))),
            )
        scal = np.empty((), dtype=object)
        scal[()] = obj
        functions = None if kind == "N" else Functions.create(weighted_objective=env.arr(scal), objectives=one(obj))
        # a bound violation of size `viol` (upper difference positive)
        info = ConstraintInfo(bound_lower=one(SR(Fraction(1)) + viol), bound_upper=one(viol))
        return FunctionResults(
            batch_id=None, metadata={},
            evaluations=FunctionEvaluations.create(variables=env.const(np.zeros(1)), objectives=env.const(np.zeros((1, 1)))),
            realizations=Realizations(failed_realizations=np.array([False])),
            functions=functions, constraint_info=info,
        )

    def run(self, env, inp):
        from ropt.enums import EventType
        from ropt.plan import Event, OptimizerContext, Plan
        from ropt.plugins.plan._tracker import DefaultTrackerHandler

        plan = Plan(OptimizerContext(evaluator=None, plugin_manager=plugin_manager()))
        src_tracked, src_other = uuid.UUID(int=1), uuid.UUID(int=2)
        tol = None if inp["tol"] is None else env.num(inp["tol"])
        h = DefaultTrackerHandler(plan, what=self.what, constraint_tolerance=tol, sources={src_tracked})
        user_items = []
        s = {"none": 1, "scale": 1, "flip": -1}[self.transform]
        n = len(self.items)
        if self.pre_held:
            # an arbitrary valid tracker state, reached the way the implementation reaches it:
            # a first tracked event delivering one feasible result with a defined objective
            u, v = inp["u"][n], inp["viol"][n]
            held = self._mk(env, "F", u, v)
            data = {"results": (held,)}
            if self.transform != "none":
                data["transformed_results"] = (self._mk(env, "F", SR((SR(u.v) * inp["k"] * s).v, u.nan), v),)
            h.handle_event(Event(event_type=EventType.FINISHED_EVALUATION, config=None, source=src_tracked, data=data))
            user_items.append(("pre", held))
        idx = 0
        for e, (tracked, kinds) in enumerate(self.events):
            res, tres = [], []
            for kind in kinds:
                u, v = inp["u"][idx], inp["viol"][idx]
                item = self._mk(env, kind, u, v)
                res.append(item)
                if self.transform != "none":
                    t = SR((SR(u.v) * inp["k"] * s).v, u.nan)
                    tres.append(self._mk(env, kind, t, v))
                user_items.append((idx, item))
                idx += 1
            data = {"results": tuple(res)}
            if self.transform != "none":
                data["transformed_results"] = tuple(tres)
            h.handle_event(Event(event_type=EventType.FINISHED_EVALUATION, config=None,
                                 source=src_tracked if tracked else src_other, data=data))
            # other event types (a new step of a tracked or another source starting, evaluations starting) never change the tracker
            for et in (EventType.START_EVALUATION, EventType.FINISHED_OPTIMIZER_STEP, EventType.START_OPTIMIZER_STEP, EventType.START_EVALUATOR_STEP):
                h.handle_event(Event(event_type=et, config=None, source=src_tracked if e % 2 == 0 else src_other, data={}))
                h.handle_event(Event(event_type=et, config=None, source=src_tracked, data={}))
        held = h["results"]
        which = next((i for i, it in user_items if it is held), "foreign" if held is not None else None)
        return {"held": which}

    def props(self, env, inp, oc):
        if not oc.ok:
            return [("no_internal_exception:" + type(oc.exc).__name__, SB(False))]
        n = len(self.items)
        u, viol, tol = inp["u"], inp["viol"], inp["tol"]
        cand = []  # (label, order, feasible, valid, t)
        if self.pre_held:
            cand.append(("pre", -1, SB(True), SB(True), self.opt_domain(inp, n)))
        for i, (e, p, kind, tracked) in enumerate(self.items):
            if kind != "F" or not tracked:
                continue
            feas = SB(True) if tol is None else viol[i] <= tol
            cand.append((i, i, feas, And(feas, Not(isnan(u[i]))), self.opt_domain(inp, i)))
        held = oc.value["held"]
        props = [("holds_a_delivered_user_domain_result", SB(held != "foreign"))]
        if self.what == "best":
            if held is None:
                props.append(("empty_only_without_valid_result", all_of(Not(v) for _, _, _, v, _ in cand)))
            else:
                me = next((c for c in cand if c[0] == held), None)
                if me is None:
                    props.append(("held_is_a_tracked_function_result", SB(False)))
                else:
                    props.append(("held_is_feasible_and_defined", me[3]))
                    props.append(("held_is_minimal_in_optimizer_domain",
                                  all_of(Implies(v, SR(me[4].v) <= SR(t.v)) for _, _, _, v, t in cand)))
            props.append(("canary:first_valid_is_kept",
                          SB(held == next((c[0] for c in cand), None)) if cand else SB(True)))
        else:
            # last: the most recent feasible function result (defined or not); a pre-held one stays if none follows
            if held is None:
                props.append(("empty_only_without_feasible_result", all_of(Not(f) for _, _, f, _, _ in cand)))
            else:
                me = next((c for c in cand if c[0] == held), None)
                if me is None:
                    props.append(("held_is_a_tracked_function_result", SB(False)))
                else:
                    props.append(("held_is_feasible", me[2]))
                    props.append(("nothing_feasible_after_held", all_of(Not(f) for _, o, f, _, _ in cand if o > me[1])))
        return props

    def observe(self, env, inp, oc):
        return {}


class BasicBestCase(Case):
    """BasicOptimizer end to end: a scripted algorithm asks for functions at several points; afterwards
    BasicOptimizer.results / .variables are the feasible delivered result with the lowest objective (None if there is
    no feasible one) - through the real optimizer step, ensemble evaluator, constraint info and tracker."""

    family = "tracker/basic-optimizer"

    def __init__(self, cid, *, n=3, tol=1e-10, maximize=False):
        from . import ens
        self.id, self.n, self.tol, self.maximize = cid, n, tol, maximize
        self.family = "tracker/basic-optimizer" + ("/maximize" if maximize else "")
        self.points = [np.array([0.25 * (e + 1), -0.5 + 0.125 * e]) for e in range(n)]
        self.cfg_dict = ens.ensemble_config(N=2, R=1, P=1, C=1, con_bounds=([-np.inf], [0.0]), lower=-10.0, upper=10.0,
                                            x0=list(self.points[0]), extra={"optimizer": {"method": "symstub/x"}}).model_dump(round_trip=True)

    def describe(self):
        return f"BasicOptimizer, {self.n} function evaluations, constraint g <= 0, tolerance {self.tol}, maximize={self.maximize}"

    def inputs(self, env):
        f = [SR(env.real(f"f_{e}", -100, 100).v, env.flag(f"nan_{e}").t) for e in range(self.n)]
        g = [env.real(f"g_{e}", -10, 10) for e in range(self.n)]
        return {"f": f, "g": g}

    def run(self, env, inp):
        from ropt.evaluator import EvaluatorResult
        from ropt.plan import BasicOptimizer
        from ropt.transforms import OptModelTransforms
        from ropt.transforms.base import ObjectiveTransform
        from . import ens

        calls = []

        def evaluator(variables, context):
            e = len(calls)
            calls.append(variables)
            return EvaluatorResult(objectives=env.arr(np.array([[inp["f"][e]]], dtype=object)),
                                   constraints=env.arr(np.array([[inp["g"][e]]], dtype=object)))

        def script(opt, x0):
            for e in range(self.n):
                opt.callback(env.const(self.points[e]), return_functions=True, return_gradients=False)

        class Maximize(ObjectiveTransform):
            def to_optimizer(self, objectives):
                return -objectives

            def from_optimizer(self, objectives):
                return -objectives

            def weighted_objective_from_optimizer(self, weighted_objective):
                return -weighted_objective

        pm = ens.stub_optimizer_manager()
        ens.set_script(script, allow_nan=True)
        tr = OptModelTransforms(objectives=Maximize()) if self.maximize else None
        d = dict(self.cfg_dict)
        d["realizations"] = dict(d["realizations"], realization_min_success=0)
        bo = BasicOptimizer(d, evaluator, transforms=tr, constraint_tolerance=self.tol)
        bo._optimizer_context.plugin_manager = pm
        bo.run()
        return {"results": bo.results, "variables": bo.variables, "ncalls": len(calls), "exit": bo.exit_code}

    def props(self, env, inp, oc):
        if not oc.ok:
            return [("no_internal_exception:" + type(oc.exc).__name__, SB(False))]
        o = oc.value
        n, f, g = self.n, inp["f"], inp["g"]
        tol = SR(Fraction(self.tol))
        feas = [And(Not(isnan(f[e])), Or(g[e] <= ZERO, g[e] - ZERO <= tol)) for e in range(n)]
        sign = -1 if self.maximize else 1
        props = [("all_points_evaluated", SB(o["ncalls"] == n))]
        res = o["results"]
        if res is None:
            props.append(("no_result_only_if_nothing_is_feasible", Not(Or(*feas))))
            return props
        val = vals(res.functions.weighted_objective)
        val = val if isinstance(val, SR) else np.asarray(val, dtype=object).ravel()[0]
        x = np.asarray(vals(o["variables"]), dtype=object)
        # it is one of the delivered feasible results ...
        is_e = [And(feas[e], close(val, SR(f[e].v)), all_of(close(x[j], SR(Fraction(float(self.points[e][j])))) for j in range(2)))
                for e in range(n)]
        props.append(("reported_result_is_a_feasible_delivered_result", Or(*is_e)))
        # ... and none of the feasible ones is better in the domain the optimizer minimises
        props.append(("reported_result_is_the_best_feasible_one",
                      all_of(Implies(feas[e], SR(val.v) * sign <= SR(f[e].v) * sign) for e in range(n))))
        return props

    def observe(self, env, inp, oc):
        return {}


def build_cases(tier):
    cases = []
    k = 0

    def add(**kw):
        nonlocal k
        k += 1
        cases.append(TrackerCase(f"c12-{k:03d}", **kw))

    T, O = True, False
    hist = [
        [(T, ["F"]), (T, ["F"]), (T, ["F"])],
        [(T, ["F", "G"]), (T, ["F"])],
        [(T, ["F"]), (O, ["F"]), (T, ["F"])],
        [(T, ["N"]), (T, ["F", "F"])],
        [(T, ["G", "F"]), (T, ["F", "F"])],
        [(T, ["N", "F"])],
        [(T, ["F"]), (T, ["N", "F", "F"])],
    ]
    for h in hist:
        for tr in ("none", "scale", "flip"):
            add(events=h, transform=tr)
    add(events=hist[0], tol=False)
    add(events=hist[2], tol=False, transform="flip")
    for h in hist[:3]:
        add(events=h, what="last")
        add(events=h, what="last", transform="scale")
    # one step from an arbitrary valid state (inductive form)
    for tr in ("none", "scale", "flip"):
        add(events=[(T, ["F"])], pre_held=True, transform=tr)
        add(events=[(T, ["F", "F"])], pre_held=True, transform=tr)
        add(events=[(O, ["F"])], pre_held=True, transform=tr)
    add(events=[(T, ["F", "N", "G"])], pre_held=True, what="last")
    for kw in (dict(n=3), dict(n=3, tol=0.0), dict(n=2, maximize=True), dict(n=3, tol=0.5, maximize=True)):
        k += 1
        cases.append(BasicBestCase(f"c12-{k:03d}", **kw))
    if tier == "thorough":
        kinds = ("F", "N", "G")
        for a, b in itertools.product(kinds, repeat=2):
            for t2 in (T, O):
                for tr in ("none", "flip"):
                    add(events=[(T, ["F"]), (t2, [a, b]), (T, ["F"])], transform=tr)
        add(events=[(T, ["F"])] * 4)
        add(events=[(T, ["F", "F"])] * 3, transform="flip")
    return cases


META = dict(
    bounds={"quick": "histories of <=3 events x <=2 results over {function, function-without-values, gradient} x {tracked, other source}; one step from an arbitrary valid tracker state; objectives in [-1000,1000] or NaN, violations in [0,10], tolerance in [0,1] or None; objective transform: none, positive scaling, sign flip; BasicOptimizer end to end with 2-3 scripted function evaluations (symbolic objective, NaN flag and constraint value each), tolerance 1e-10 / 0 / 0.5, minimisation and maximisation",
            "thorough": "all kind pairs in the middle event, 4-event histories",
            "outside": "longer histories (covered inductively by the pre-held cases); several violations per result"},
    stubs=["BasicBestCase: optimizer plug-in `symstub` (scripted requests), everything else real", "result objects are built directly (real dataclasses) with one bound violation each; Plan/OptimizerContext are real"],
    assumptions=["the optimizer-domain objective is k*u (k>0) or -k*u (maximisation) of the user-domain objective u",
                 "feasibility is judged on the optimizer-domain (transformed) result, as the tracker does",
                 "ties between equal objectives: any minimal result may be held"],
)
