"""C07 - values handed to the optimizer match the ensemble for any request order.

Encoded: SciPyOptimizer.__init__/start (scipy.optimize replaced by recorders), _function, _gradient,
_constraint_functions/_gradients, _fun, _jac, _get_function_or_gradient, _compute_functions_and_gradients,
NormalizedConstraints.reset/set_constraints/set_gradients.
Symbolic: the pool points (pairwise separated), every value the optimizer callback returns per pool point,
constraint bounds and linear coefficients, and the request script itself (which captured callable is
invoked at which pool point is a solver variable per step).
EnsembleCase additionally encodes what sits behind the callback: EnsembleOptimizer._optimizer_callback /
_run_evaluations / _functions_from_results / _gradients_from_results and EnsembleEvaluator.calculate on single
points and batches (scripted algorithm, affine realizations with symbolic slopes, offsets and weights).
"""
from __future__ import annotations

import itertools
from fractions import Fraction

import numpy as np

from symnp import SymArray
from .common import And, Case, Iff, Implies, Not, Or, SB, SR, all_of, clone_config, close, exact, inject, isnan, ite, make_config, ssum, vals

INF = SR(Fraction(0), False, 1)
BIG = 50
NO_GRADIENT = {"nelder-mead", "powell", "cobyla", "differential_evolution"}


class OrderCase(Case):
    family = "request-order"

    def __init__(self, cid, *, method, speculative=False, split=False, nkinds=(), lkinds=(), L=3, N=2, npts=2, batch=0, restart=False):
        self.id = cid
        self.method, self.speculative, self.split = method, speculative, split
        self.nkinds, self.lkinds, self.L, self.N, self.npts, self.batch = tuple(nkinds), tuple(lkinds), L, N, npts, batch
        self.gradfree = method.lower().rpartition("/")[2] in NO_GRADIENT
        self.family = "request-order/" + ("gradient-free" if self.gradfree else "gradient") + ("/constraints" if nkinds or lkinds else "")
        d = {
            "variables": {"initial_values": [0.0] * N, "lower_bounds": -100.0, "upper_bounds": 100.0},
            "optimizer": {"method": method, "speculative": speculative, "split_evaluations": split, "parallel": bool(batch)},
        }
        base = method.lower().rpartition("/")[2]
        if base in ("bfgs", "cg", "newton-cg", "cobyla"):
            d["variables"].pop("lower_bounds"), d["variables"].pop("upper_bounds")
        if self.nkinds:
            d["nonlinear_constraints"] = {"lower_bounds": [0.0] * len(nkinds), "upper_bounds": [1.0] * len(nkinds)}
        if self.lkinds:
            d["linear_constraints"] = {"coefficients": [[1.0] * N] * len(lkinds), "lower_bounds": [0.0] * len(lkinds),
                                       "upper_bounds": [1.0] * len(lkinds)}
        self.cfg0 = make_config(d)
        # the normalised constraint rows SciPy will see: (source, index, sign, which bound)
        self.rows = []
        for src, kinds in (("n", self.nkinds), ("l", self.lkinds)):
            for k, kind in enumerate(kinds):
                if kind == "eq":
                    self.rows.append((src, k, 1, "lo", "eq"))
                else:
                    if kind in ("lower", "both"):
                        self.rows.append((src, k, 1, "lo", "ineq"))
                    if kind in ("upper", "both"):
                        self.rows.append((src, k, -1, "hi", "ineq"))
        # callables: fun, jac (gradient methods), per row fun (+ jac unless cobyla / gradient-free)
        self.restart = restart
        self.callables = ["fun"] + ([] if self.gradfree else ["jac"]) + (["restart"] if restart else [])
        self.base = base
        if base == "differential_evolution":
            if self.nkinds:
                self.callables.append(("nlfun",))
        else:
            for i in range(len(self.rows)):
                self.callables.append(("cfun", i))
                if base != "cobyla":
                    self.callables.append(("cjac", i))

    def describe(self):
        return (f"{self.method} speculative={self.speculative} split={self.split} nonlinear={self.nkinds} linear={self.lkinds} "
                f"script_length={self.L} points={self.npts} batch={self.batch} callables={len(self.callables)}")

    def inputs(self, env):
        N, npts, B = self.N, self.npts, max(1, self.batch)
        # pool entries: a point (N,) or a batch (B, N)
        pts = env.reals("p", (npts, B, N), lo=-BIG, hi=BIG)
        for a in range(npts):
            for b in range(a + 1, npts):
                sep = []
                for r in range(B):
                    for j in range(N):
                        d = pts[a, r, j] - pts[b, r, j]
                        lim = SR(Fraction(1, 1000)) * (1 + abs(pts[a, r, j]) + abs(pts[b, r, j]))
                        sep.append(Or(d > lim, -d > lim))
                env.assume(Or(*sep))
        nC = len(self.nkinds)
        # one value table per epoch: a restart of the same optimizer object (e.g. with other fixed variables)
        # starts a new epoch in which every point has new ensemble values
        E = 2 if self.restart else 1
        F = env.reals("F", (E, npts, B), lo=-BIG, hi=BIG)
        G = env.reals("G", (E, npts, B, nC), lo=-BIG, hi=BIG)
        dF = env.reals("dF", (E, npts, N), lo=-BIG, hi=BIG)
        dG = env.reals("dG", (E, npts, nC, N), lo=-BIG, hi=BIG)
        nlo, nhi = self._bounds(env, "nb", self.nkinds)
        llo, lhi = self._bounds(env, "lb", self.lkinds)
        A = env.reals("A", (len(self.lkinds), N), lo=-5, hi=5)
        req = [env.integer(f"req_{t}", 0, len(self.callables) * npts - 1) for t in range(self.L)]
        return dict(pts=pts, F=F, G=G, dF=dF, dG=dG, nlo=nlo, nhi=nhi, llo=llo, lhi=lhi, A=A, req=req)

    @staticmethod
    def _bounds(env, name, kinds):
        lo, hi = [], []
        for i, k in enumerate(kinds):
            if k == "eq":
                a = env.real(f"{name}_lo_{i}", -BIG, BIG)
                b = a
            elif k == "both":
                a, b = env.real(f"{name}_lo_{i}", -BIG, BIG), env.real(f"{name}_hi_{i}", -BIG, BIG)
                env.assume(b - a >= Fraction(1, 10000))
            elif k == "lower":
                a, b = env.real(f"{name}_lo_{i}", -BIG, BIG), INF
            else:
                a, b = -INF, env.real(f"{name}_hi_{i}", -BIG, BIG)
            lo.append(a), hi.append(b)
        return lo, hi

    # ---- identify a requested point with a pool entry (the values are a function of the point)
    def which_point(self, env, inp, variables):
        v = np.asarray(vals(variables), dtype=object)
        B = max(1, self.batch)
        v = v.reshape(B, self.N) if v.size == B * self.N else v
        for i in range(self.npts):
            p = inp["pts"][i]
            if v.shape != p.shape:
                continue
            same = True
            for x, y in zip(v.flat, p.flat):
                if env.sym:
                    same &= (x.concrete and y.concrete and x.v == y.v) or (not x.concrete and not y.concrete and x.v.eq(y.v))
                else:
                    same &= x.to_float() == y.to_float()
            if same:
                return i
        return None

    def run(self, env, inp):
        import ropt.plugins.optimizer.scipy as S

        obj = lambda seq: np.array(list(seq), dtype=object)  # noqa: E731
        cfg = clone_config(self.cfg0)
        if self.nkinds:
            inject(cfg.nonlinear_constraints, lower_bounds=env.arr(obj(inp["nlo"]), False), upper_bounds=env.arr(obj(inp["nhi"]), False))
        if self.lkinds:
            inject(cfg.linear_constraints, coefficients=env.arr(inp["A"], False),
                   lower_bounds=env.arr(obj(inp["llo"]), False), upper_bounds=env.arr(obj(inp["lhi"]), False))
        rec, log = {}, []
        B = max(1, self.batch)
        epoch = [0]

        class Rec:
            def __init__(self, *a, **kw):
                self.args, self.kw = a, kw

        def callback(variables, *, return_functions, return_gradients):
            i = self.which_point(env, inp, variables)
            log.append({"point": i, "f": return_functions, "g": return_gradients, "shape": np.shape(vals(variables)), "epoch": epoch[0]})
            if i is None:
                raise RuntimeError("harness: the plug-in evaluated a point outside the pool")
            f = g = np.array([])
            if return_functions:
                rows = [[inp["F"][epoch[0], i, b]] + list(inp["G"][epoch[0], i, b]) for b in range(B)]
                f = env.arr(np.array(rows if self.batch else rows[0], dtype=object))
            if return_gradients:
                g = env.arr(np.array([list(inp["dF"][epoch[0], i])] + [list(r) for r in inp["dG"][epoch[0], i]], dtype=object))
            return f, g

        def fake_minimize(**kw):
            rec.update(kw)

        def fake_de(**kw):
            rec.update(kw)

        old = (S.minimize, S.differential_evolution, S.Bounds, S.LinearConstraint, S.NonlinearConstraint)
        S.minimize, S.differential_evolution = fake_minimize, fake_de
        S.Bounds, S.LinearConstraint, S.NonlinearConstraint = Rec, type("L", (Rec,), {}), type("NL", (Rec,), {})
        try:
            opt = S.SciPyOptimizer(cfg, callback)
            opt.start(env.const(np.zeros(self.N)))
            table = {}
            table["fun"] = rec.get("fun") or rec.get("func")
            if "jac" in rec and rec["jac"]:
                table["jac"] = rec["jac"]
            cons = rec.get("constraints") or []
            if self.base == "differential_evolution":
                for c in cons:
                    if type(c).__name__ == "NL":
                        table[("nlfun",)] = c.kw["fun"]
            else:
                for i, c in enumerate(cons):
                    table[("cfun", i)] = c["fun"]
                    if "jac" in c:
                        table[("cjac", i)] = c["jac"]
            out = {"steps": [], "log": log, "ncons": len(cons), "types": [c["type"] for c in cons] if self.base != "differential_evolution" else []}
            for t in range(self.L):
                code = int(inp["req"][t])
                ci, pi = divmod(code, self.npts)
                name = self.callables[ci]
                if name == "restart":
                    # the same optimizer object is started again from pool point pi (ropt does this for every run
                    # of an EnsembleOptimizer); the ensemble behind the callback has changed meanwhile
                    epoch[0] = min(epoch[0] + 1, 1)
                    p = inp["pts"][pi]
                    opt.start(env.arr(p[0]))
                    out["steps"].append((name, pi, "restarted", len(log), epoch[0]))
                    continue
                fn = table.get(name)
                if fn is None:
                    out["steps"].append((name, pi, "missing", len(log), epoch[0]))
                    continue
                p = inp["pts"][pi]
                arg = env.arr(p.T if self.batch else p[0])  # vectorized DE hands (N, B) matrices
                n0 = len(log)
                ret = fn(arg)
                out["steps"].append((name, pi, ret, n0, epoch[0]))
            return out
        finally:
            S.minimize, S.differential_evolution, S.Bounds, S.LinearConstraint, S.NonlinearConstraint = old

    # ---- expected values
    def raw(self, inp, src, k, pi, b=0, ep=0):
        if src == "n":
            return inp["G"][ep, pi, b, k]
        return ssum([inp["A"][k, j] * inp["pts"][pi, b, j] for j in range(self.N)])

    def raw_row(self, inp, src, k, pi, ep=0):
        if src == "n":
            return list(inp["dG"][ep, pi, k])
        return list(inp["A"][k])

    def props(self, env, inp, oc):
        if not oc.ok:
            return [("no_internal_exception:" + type(oc.exc).__name__, SB(False))]
        out = oc.value
        props = []
        if self.base != "differential_evolution":
            props.append(("constraint_rows_as_configured", SB(out["types"] == [r[4] for r in self.rows])))
        B = max(1, self.batch)
        for t, (name, pi, ret, n0, ep) in enumerate(out["steps"]):
            tag = f"step{t}"
            if isinstance(ret, str):
                if ret != "restarted":
                    props.append((f"{tag}.callable_exists", SB(False)))
                continue
            rv = np.asarray(vals(ret), dtype=object)
            if name == "fun":
                exp = [inp["F"][ep, pi, b] for b in range(B)]
                got = list(rv.ravel())
                props.append((f"{tag}.objective_is_value_at_requested_point", SB(len(got) == len(exp)) if len(got) != len(exp) else
                              all_of(exact(g, e) for g, e in zip(got, exp))))
            elif name == "jac":
                exp = list(inp["dF"][ep, pi])
                got = list(rv.ravel())
                props.append((f"{tag}.gradient_is_value_at_requested_point", SB(len(got) == len(exp)) if len(got) != len(exp) else
                              all_of(exact(g, e) for g, e in zip(got, exp))))
            elif name[0] == "nlfun":
                exp = [inp["G"][ep, pi, b, k] for k in range(len(self.nkinds)) for b in range(B)]
                got = list(rv.ravel())
                props.append((f"{tag}.constraints_are_values_at_requested_point", SB(len(got) == len(exp)) if len(got) != len(exp) else
                              all_of(exact(g, e) for g, e in zip(got, exp))))
            elif name[0] == "cfun":
                src, k, sgn, which, _ = self.rows[name[1]]
                rhs = (inp["nlo"] if src == "n" else inp["llo"])[k] if which == "lo" else (inp["nhi"] if src == "n" else inp["lhi"])[k]
                exp = (self.raw(inp, src, k, pi, ep=ep) - rhs) * sgn
                got = list(rv.ravel())
                props.append((f"{tag}.constraint_is_value_at_requested_point", SB(len(got) == 1) if len(got) != 1 else close(got[0], exp)))
            else:
                src, k, sgn, which, _ = self.rows[name[1]]
                exp = [x * sgn for x in self.raw_row(inp, src, k, pi, ep=ep)]
                got = list(rv.ravel())
                props.append((f"{tag}.constraint_jacobian_is_value_at_requested_point", SB(len(got) == len(exp)) if len(got) != len(exp) else
                              all_of(close(g, e) for g, e in zip(got, exp))))
        # the evaluation log
        log = out["log"]
        props.append(("only_pool_points_are_evaluated", SB(all(e["point"] is not None for e in log))))
        if self.gradfree:
            props.append(("gradient_free_method_never_evaluates_gradients", SB(not any(e["g"] for e in log))))
        if self.split:
            props.append(("split_evaluations_never_combines", SB(not any(e["f"] and e["g"] for e in log))))
        # nothing is evaluated twice for the current point
        ok = True
        cur, seen_f, seen_g = None, False, False
        step_pts = [((pi, ep) if nm != "restart" else ("restart", t), n0) for t, (nm, pi, _, n0, ep) in enumerate(out["steps"])]
        bounds = [n0 for _, n0 in step_pts] + [len(log)]
        for t, (pi, n0) in enumerate(step_pts):
            if pi != cur:
                cur, seen_f, seen_g = pi, False, False
            for e in log[bounds[t]:bounds[t + 1]]:
                if (e["f"] and seen_f) or (e["g"] and seen_g) or (isinstance(pi[0], int) and e["point"] != pi[0]):
                    ok = False
                seen_f |= e["f"]
                seen_g |= e["g"]
        props.append(("nothing_is_evaluated_twice_for_the_current_point", SB(ok)))
        return props

    def observe(self, env, inp, oc):
        return {}


class EnsembleCase(Case):
    """Behind the optimizer callback: the real EnsembleOptimizer + EnsembleEvaluator, driven by a scripted
    algorithm with single points and batches.  Every returned number is the ensemble value at the requested point."""

    family = "ensemble-callback"

    def __init__(self, cid, *, R=2, C=1, script, parallel=False, split=False):
        from . import ens
        self.id, self.R, self.C, self.script, self.parallel, self.split = cid, R, C, tuple(script), parallel, split
        self.N, self.P = 2, 2
        self.family = "ensemble-callback/" + ("batch" if parallel else "single")
        self.points = [np.array([0.25, -0.5]), np.array([-0.75, 0.125]), np.array([0.5, 0.5])]
        # +-e_j designs: perfectly conditioned perturbation differences
        D = np.zeros((R, self.P, self.N))
        for r in range(R):
            for p in range(self.P):
                D[r, p, p % self.N] = 1.0 if (r + p) % 2 == 0 else -1.0
        self.design = D
        self.cfg0 = ens.ensemble_config(N=self.N, R=R, P=self.P, C=C, lower=-10.0, upper=10.0, x0=list(self.points[0]),
                                        extra={"optimizer": {"method": "symstub/x", "split_evaluations": split}})

    def describe(self):
        return f"EnsembleOptimizer callback R={self.R} C={self.C} parallel={self.parallel} split={self.split} script={self.script}"

    def inputs(self, env):
        R, F, N = self.R, 1 + self.C, self.N
        w = env.reals("w", R, lo=0, hi=1)
        for r in range(R):
            env.assume(w[r] > 0)
        env.assume(ssum(list(w)) == 1)
        return {"w": w, "A": env.reals("a", (R, F, N), lo=-BIG, hi=BIG), "c": env.reals("c", (R, F), lo=-BIG, hi=BIG)}

    def run(self, env, inp):
        from ropt.ensemble_evaluator import EnsembleEvaluator
        from ropt.optimization import EnsembleOptimizer
        from . import ens

        cfg = clone_config(self.cfg0)
        inject(cfg.realizations, weights=env.arr(inp["w"], writeable=False))
        pm = ens.stub_optimizer_manager()
        ens.set_samples(lambda sampler: env.const(self.design))
        ev = ens.AffineEvaluator(env, inp["A"], inp["c"], {}, 1)
        returned = []

        def script(opt, x0):
            for pt, fn, gr in self.script:
                x = env.const(np.vstack([self.points[i] for i in pt])) if isinstance(pt, tuple) else env.const(self.points[pt])
                returned.append(opt.callback(x, return_functions=fn, return_gradients=gr))

        ens.set_script(script, parallel=self.parallel)
        ee = EnsembleEvaluator(cfg, None, ev, pm)
        opt = EnsembleOptimizer(cfg, ee, pm, signal_evaluation=lambda results=None: None)
        code = opt.start(env.const(self.points[0]))
        return {"code": code, "returned": returned, "calls": ev.calls}

    def props(self, env, inp, oc):
        if not oc.ok:
            return [("no_internal_exception:" + type(oc.exc).__name__, SB(False))]
        out = oc.value
        w, A, c = list(inp["w"]), inp["A"], inp["c"]
        R, F, N = self.R, 1 + self.C, self.N
        props = [("all_requests_answered", SB(len(out["returned"]) == len(self.script)))]

        def value(f, x):
            return ssum([w[r] * (c[r, f] + ssum([A[r, f, j] * SR(Fraction(float(x[j]))) for j in range(N)])) for r in range(R)])

        for t, ((pt, fn, gr), (fv, gv)) in enumerate(zip(self.script, out["returned"])):
            pts = [self.points[i] for i in pt] if isinstance(pt, tuple) else [self.points[pt]]
            if fn:
                got = np.asarray(vals(fv), dtype=object)
                want_shape = (len(pts), F) if isinstance(pt, tuple) else (F,)
                props.append((f"req{t}.functions_shape", SB(got.shape == want_shape)))
                if got.shape == want_shape:
                    got = got.reshape(len(pts), F)
                    for b, x in enumerate(pts):
                        for f in range(F):
                            props.append((f"req{t}.point{b}.function{f}.is_ensemble_value_at_requested_point", close(got[b, f], value(f, x))))
            if gr:
                got = np.asarray(vals(gv), dtype=object)
                props.append((f"req{t}.gradient_shape", SB(got.shape == (F, N))))
                if got.shape == (F, N):
                    for f in range(F):
                        for j in range(N):
                            props.append((f"req{t}.function{f}.v{j}.gradient_is_ensemble_gradient",
                                          close(got[f, j], ssum([w[r] * A[r, f, j] for r in range(R)]))))
        return props

    def observe(self, env, inp, oc):
        return {}


def build_cases(tier):
    cases = []
    k = 0

    def add(cls=OrderCase, **kw):
        nonlocal k
        k += 1
        cases.append(cls(f"c07-{k:03d}", **kw))

    L = 3
    for spec, split in itertools.product((False, True), repeat=2):
        add(method="slsqp", speculative=spec, split=split, L=L)
        add(method="slsqp", speculative=spec, split=split, nkinds=("lower",), L=L if tier == "thorough" else 3)
        add(method="nelder-mead", speculative=spec, split=split, L=L)
        add(method="cobyla", speculative=spec, split=split, nkinds=("upper",), L=L)
    add(method="slsqp", nkinds=("both", "eq"), lkinds=("upper",), L=2)
    # linear constraints only: the constraint callables never go through the objective's cache
    add(method="slsqp", lkinds=("both",), L=3)
    add(method="cobyla", lkinds=("lower", "upper"), L=3, speculative=True)
    add(method="SLSQP", lkinds=("eq",), L=3, npts=3)
    # method names as users may spell them
    add(method="Nelder-Mead", speculative=True, L=2)
    add(method="scipy/cobyla", speculative=True, nkinds=("lower",), L=2)
    add(method="scipy/Powell", speculative=True, split=True, L=2)
    add(method="slsqp", speculative=True, nkinds=("eq",), lkinds=("lower",), L=3)
    add(method="l-bfgs-b", split=True, L=3, npts=3)
    add(method="slsqp", L=3, restart=True)                         # the same optimizer object is started twice
    add(method="slsqp", nkinds=("lower",), L=3, restart=True, speculative=True)
    add(method="nelder-mead", L=3, restart=True)
    add(method="differential_evolution", nkinds=("lower",), L=3)
    add(method="differential_evolution", nkinds=("both",), L=3, batch=2, speculative=True)
    add(method="differential_evolution", L=3, batch=2)
    # behind the callback: real EnsembleOptimizer + EnsembleEvaluator, batches over several realizations
    for kw in (dict(script=(((0, 1), True, False), (2, True, False), ((2, 0), True, False)), parallel=True),
               dict(R=3, C=0, script=(((1, 2, 0), True, False),), parallel=True),
               dict(script=((0, True, False), (0, False, True), (1, False, True), (1, True, False), (0, True, True)), split=True),
               dict(R=3, script=((1, True, True), (2, True, False), (2, False, True)))):
        add(EnsembleCase, **kw)
    if tier == "thorough":
        for spec, split in itertools.product((False, True), repeat=2):
            add(method="slsqp", speculative=spec, split=split, nkinds=("both",), lkinds=("eq",), L=3)
            add(method="bfgs", speculative=spec, split=split, L=4, npts=3)
            add(method="cobyla", speculative=spec, split=split, nkinds=("lower", "upper"), L=4)
            add(method="differential_evolution", speculative=spec, split=split, nkinds=("eq",), L=4, batch=2)
        add(method="slsqp", nkinds=("lower",), L=4)
        add(method="tnc", L=5, npts=3)
    return cases


META = dict(
    bounds={"quick": "request scripts of length <=3 over {objective, gradient, each normalised constraint value, each constraint Jacobian} x 2-3 pool points, chosen by solver variables; speculative x split_evaluations; slsqp, l-bfgs-b (gradient), nelder-mead, cobyla (gradient-free), differential_evolution (also vectorised batches of 2); N=2",
            "thorough": "scripts of length 4 (5 for the two-callable tnc case), three pool points, two constraints of mixed kinds",
            "outside": "longer scripts; the orders SciPy's algorithms really produce are a subset of the scripts; points closer than 1e-3(1+|x|) but not identical"},
    stubs=["optimizer plug-in `symstub` and sampler plug-in `stub` (EnsembleCase: concrete +-e_j design)", "scipy.optimize.minimize / differential_evolution / Bounds / LinearConstraint / NonlinearConstraint: recorders; the captured callables are invoked by the harness",
           "optimizer callback: returns, for the pool point it is asked about, that point's symbols (the ensemble value is a function of the point)"],
    assumptions=["distinct pool points differ in some coordinate by more than 1e-3*(1+|a|+|b|)"],
    timeout_ms={"quick": 10000, "thorough": 30000},
)
