"""C17 - samplers obey the perturbation-sample contract, including QMC point integrity.

Encoded: SciPySampler.__init__/_init_sampler/_set_options/generate_samples/_generate_stats_samples/
_generate_qmc_samples and EnsembleEvaluator._init_samplers/_get_mask.
Stubs: the SciPy distributions' rvs, the QMC engines' random() and qmc.scale return fresh symbols
(every drawn number is a solver variable); the distribution/engine internals are SciPy's and not claimed.
"""
from __future__ import annotations

from fractions import Fraction

import numpy as np

from symnp import SymArray
from .common import And, Case, Implies, Not, Or, SB, SR, all_of, clone_config, close, exact, inject, isnan, ite, plugin_manager, ssum, vals
from . import ens

ZERO = SR(Fraction(0))
STATS = ("uniform", "norm", "truncnorm")
QMC = ("sobol", "halton", "lhs")


class SamplerCase(Case):
    family = "sampler"

    def __init__(self, cid, *, method, N, R, P, shared=False, mask=None, sampler_map=None, which=0, options=None, calls=1,
                 nsamplers=1):
        self.id = cid
        self.method, self.N, self.R, self.P, self.shared = method, N, R, P, shared
        self.mask, self.sampler_map, self.which, self.options, self.calls = mask, sampler_map, which, options or {}, calls
        self.family = "sampler/qmc" if method in QMC else "sampler/stats"
        samplers = [{"method": method, "shared": shared, "options": self.options} for _ in range(nsamplers)]
        self.cfg0 = ens.ensemble_config(N=N, R=R, P=P, mask=mask, samplers=samplers, sampler_map=sampler_map)
        handled = np.ones(N, dtype=bool)
        if mask is not None:
            handled &= np.array(mask)
        if sampler_map is not None:
            handled &= np.array(sampler_map) == which
        self.handled = [j for j in range(N) if handled[j]]
        self.dim = len(self.handled)

    def describe(self):
        return (f"{self.method} N={self.N} R={self.R} P={self.P} shared={self.shared} mask={self.mask} map={self.sampler_map} "
                f"sampler={self.which} options={self.options} calls={self.calls}")

    def inputs(self, env):
        nb = 1 if self.shared else self.R
        # unit draws per call: what the distribution / engine hands out
        if self.method == "norm":
            d = env.reals("draw", (self.calls, nb, self.P, self.dim), lo=-1000, hi=1000)
        else:
            d = env.reals("draw", (self.calls, nb, self.P, self.dim), lo=0, hi=1)
        return {"d": d}

    def run(self, env, inp):
        import ropt.plugins.sampler.scipy as S
        from ropt.ensemble_evaluator._ensemble_evaluator import _get_mask

        case = self
        log = {"rvs": [], "random": [], "scale": [], "rng": []}
        nb = 1 if self.shared else self.R

        class StubDist:
            def __init__(self, name):
                self.name = name

            def rvs(self, size=None, random_state=None, **opts):
                call = len(log["rvs"])
                log["rvs"].append((size, opts))
                log["rng"].append(random_state)
                u = inp["d"][call]
                out = np.empty(tuple(size), dtype=object)
                for idx in np.ndindex(*size):
                    x = u[idx]
                    if self.name == "uniform":
                        x = SR(Fraction(opts.get("loc", 0.0))) + SR(Fraction(opts.get("scale", 1.0))) * x
                    elif self.name == "truncnorm":
                        a, b = Fraction(opts["a"]), Fraction(opts["b"])
                        x = SR(a) + SR(b - a) * x
                    out[idx] = x
                return env.arr(out)

        class StubEngine:
            def __init__(self, d, seed=None, **opts):
                self.d = d
                log["rng"].append(seed)
                self.calls = 0

            def random(self, n):
                log["random"].append(n)
                # the sequence continues over calls: row i of the flattened symbol table = point i
                u = inp["d"].reshape(-1, case.dim)
                start = getattr(self, "pos", 0)
                self.pos = start + n
                rows = u[start:start + n]
                if rows.shape[0] < n:  # more points than are ever handed out: pad (the surplus is never claimed)
                    pad = np.empty((n - rows.shape[0], case.dim), dtype=object)
                    pad.fill(SR(Fraction(1, 2)))
                    rows = np.vstack([rows, pad]) if rows.size else pad
                return env.arr(rows)

        def stub_scale(sample, l_bounds, u_bounds):
            log["scale"].append((np.asarray(l_bounds), np.asarray(u_bounds)))
            lo = np.asarray(l_bounds, dtype=float)
            hi = np.asarray(u_bounds, dtype=float)
            return sample * (hi - lo) + lo

        old = (dict(S._STATS_SAMPLERS), dict(S._QMC_ENGINES), S.scale)
        S._STATS_SAMPLERS.update({k: StubDist(k) for k in STATS})
        S._QMC_ENGINES.update({k: StubEngine for k in QMC})
        S.scale = stub_scale
        try:
            cfg = clone_config(self.cfg0)
            rng = object()
            mask = _get_mask(self.which, cfg.gradient.samplers, cfg.variables.mask)
            sampler = S.SciPySampler(cfg, self.which, mask, rng)
            outs = [sampler.generate_samples() for _ in range(self.calls)]
        finally:
            S._STATS_SAMPLERS.clear(), S._STATS_SAMPLERS.update(old[0])
            S._QMC_ENGINES.clear(), S._QMC_ENGINES.update(old[1])
            S.scale = old[2]
        return {"outs": outs, "log": log, "rng": rng, "mask": mask}

    def expected(self, inp, call, r, p, jj):
        """the number drawn for (realization r, perturbation p, handled variable jj), scaled as documented"""
        b = 0 if self.shared else r
        u = inp["d"][call, b, p, jj]
        if self.method == "norm":
            return u
        if self.method == "uniform":
            lo = Fraction(self.options.get("loc", -1.0))
            sc = Fraction(self.options.get("scale", 2.0))
            return SR(lo) + SR(sc) * u
        if self.method == "truncnorm":
            a, b2 = Fraction(self.options.get("a", -1.0)), Fraction(self.options.get("b", 1.0))
            return SR(a) + SR(b2 - a) * u
        return SR(Fraction(-1)) + SR(Fraction(2)) * u  # QMC: point (r*P+p) scaled to [-1, 1]

    def props(self, env, inp, oc):
        if not oc.ok:
            return [("no_internal_exception:" + type(oc.exc).__name__, SB(False))]
        N, R, P = self.N, self.R, self.P
        props = []
        log = oc.value["log"]
        props.append(("generator_of_the_evaluator_is_used", SB(all(g is oc.value["rng"] for g in log["rng"]) and (len(log["rng"]) >= 1 or self.dim == 0))))
        if self.method in QMC:
            # every point asked from the engine is handed out (a subset of an LHS design is not an LHS design)
            nb = 1 if self.shared else R
            # (a sampler that handles no free variable hands out nothing and need not ask)
            ok = log["random"] == [nb * P] * self.calls or (self.dim == 0 and log["random"] in ([], [nb * P] * self.calls))
            props.append(("qmc_engine_asked_for_exactly_the_points_handed_out", SB(ok)))
        for call, out in enumerate(oc.value["outs"]):
            a = np.asarray(vals(out), dtype=object)
            props.append((f"call{call}.shape", SB(a.shape == (R, P, N))))
            if a.shape != (R, P, N):
                continue
            for r in range(R):
                for p in range(P):
                    for j in range(N):
                        tag = f"call{call}.r{r}p{p}v{j}"
                        if j not in self.handled:
                            props.append((f"{tag}.unhandled_is_zero", exact(a[r, p, j], ZERO)))
                            continue
                        jj = self.handled.index(j)
                        exp = self.expected(inp, call, r, p, jj)
                        name = "qmc_point_integrity" if self.method in QMC else "is_the_drawn_number"
                        props.append((f"{tag}.{name}", close(a[r, p, j], exp)))
                        if self.method != "norm" and not self.options:
                            props.append((f"{tag}.within_default_range", And(a[r, p, j] >= -1, a[r, p, j] <= 1)))
                        if self.shared and r > 0:
                            props.append((f"{tag}.shared_identical", exact(a[r, p, j], a[0, p, j])))
        return props

    def observe(self, env, inp, oc):
        if not oc.ok:
            return {}
        return {f"out{i}": o for i, o in enumerate(oc.value["outs"])}


class PipelineCase(Case):
    """Several real SciPySampler objects combined by _perturb_variables over repeated gradient evaluations:
    every perturbed entry is x + magnitude * (the number drawn for it by the sampler that owns the variable)."""

    family = "sampler/pipeline"

    def __init__(self, cid, *, methods, sampler_map, N, R=2, P=2, evals=2, mask=None):
        self.id, self.methods, self.sampler_map, self.N, self.R, self.P, self.evals, self.mask = cid, methods, sampler_map, N, R, P, evals, mask
        self.cfg0 = ens.ensemble_config(N=N, R=R, P=P, mask=mask, samplers=[{"method": m} for m in methods], sampler_map=sampler_map,
                                        lower=-100.0, upper=100.0, magnitudes=0.25)
        self.owner = {}
        for j in range(N):
            if (mask is None or mask[j]) and sampler_map[j] >= 0:    # any negative entry: no sampler, not perturbed
                self.owner[j] = sampler_map[j]
        self.cols = {i: [j for j in range(N) if self.owner.get(j) == i] for i in range(len(methods))}

    def describe(self):
        return f"pipeline samplers={self.methods} map={self.sampler_map} mask={self.mask} R={self.R} P={self.P} gradient_evaluations={self.evals}"

    def inputs(self, env):
        d = {}
        for i, m in enumerate(self.methods):
            dim = len(self.cols[i])
            d[i] = env.reals(f"draw{i}", (self.evals, self.R, self.P, max(dim, 1)), lo=0, hi=1)
        return {"d": d}

    def run(self, env, inp):
        import ropt.plugins.sampler.scipy as S
        from ropt.ensemble_evaluator import EnsembleEvaluator
        from ropt.evaluator import EvaluatorResult

        case = self
        counters = {}

        def unit(sampler_id, size):
            call = counters.get(sampler_id, 0)
            counters[sampler_id] = call + 1
            return inp["d"][sampler_id][call]

        class StubDist:
            def __init__(self, name):
                self.name = name

            def rvs(self, size=None, random_state=None, **opts):
                u = unit(random_state.owner, size)
                out = np.empty(tuple(size), dtype=object)
                for idx in np.ndindex(*size):
                    out[idx] = u[idx] * 2 - 1
                return env.arr(out)

        class Rng:
            pass

        class StubEngine:
            def __init__(self, d, seed=None, **opts):
                self.d, self.g = d, seed

            def random(self, n):
                u = unit(self.g.owner, None).reshape(-1, max(self.d, 1))
                return env.arr(u[:n, : self.d])

        def stub_scale(sample, l_bounds, u_bounds):
            lo, hi = np.asarray(l_bounds, dtype=float), np.asarray(u_bounds, dtype=float)
            return sample * (hi - lo) + lo

        # every sampler gets the shared generator; the stub must know which sampler draws: tag through create order
        old = (dict(S._STATS_SAMPLERS), dict(S._QMC_ENGINES), S.scale)
        S._STATS_SAMPLERS.update({k: StubDist(k) for k in STATS})
        S._QMC_ENGINES.update({k: StubEngine for k in QMC})
        S.scale = stub_scale
        orig_init = S.SciPySampler.__init__

        def tagging_init(self_, cfg, idx, mask, rng):
            r = Rng()
            r.owner = idx
            orig_init(self_, cfg, idx, mask, r)

        S.SciPySampler.__init__ = tagging_init
        try:
            calls = []

            def evaluator(variables, context):
                calls.append(variables)
                return EvaluatorResult(objectives=np.full((variables.shape[0], 1), np.nan))

            from .common import plugin_manager
            ee = EnsembleEvaluator(clone_config(self.cfg0), None, evaluator, plugin_manager())
            outs = []
            for e in range(self.evals):
                x = np.array([0.5 * (j + 1) + e for j in range(self.N)])
                _, gr = ee.calculate(env.const(x), compute_functions=True, compute_gradients=True)
                outs.append((x, gr.evaluations.perturbed_variables))
        finally:
            S._STATS_SAMPLERS.clear(), S._STATS_SAMPLERS.update(old[0])
            S._QMC_ENGINES.clear(), S._QMC_ENGINES.update(old[1])
            S.scale = old[2]
            S.SciPySampler.__init__ = orig_init
        return {"outs": outs}

    def props(self, env, inp, oc):
        if not oc.ok:
            return [("no_internal_exception:" + type(oc.exc).__name__, SB(False))]
        props = []
        mag = SR(Fraction(1, 4))
        for e, (x, pv) in enumerate(oc.value["outs"]):
            a = np.asarray(vals(pv), dtype=object)
            for r in range(self.R):
                for p in range(self.P):
                    for j in range(self.N):
                        xj = SR(Fraction(float(x[j])))
                        if j not in self.owner:
                            props.append((f"eval{e}.r{r}p{p}v{j}.unhandled_variable_not_perturbed", exact(a[r, p, j], xj)))
                            continue
                        i = self.owner[j]
                        u = inp["d"][i][e, r, p, self.cols[i].index(j)]
                        props.append((f"eval{e}.r{r}p{p}v{j}.is_x_plus_magnitude_times_own_draw", close(a[r, p, j], xj + mag * (u * 2 - 1))))
        return props


class RealLhsCase(Case):
    """Concrete companion (no solver variable): with SciPy's real LatinHypercube engine, the points
    handed out keep one sample per stratum and variable - what the point-integrity obligation implies."""

    family = "sampler/qmc"

    def __init__(self, cid, R, P, N, seed, shared=False):
        self.id, self.R, self.P, self.N, self.seed, self.shared = cid, R, P, N, seed, shared
        self.cfg0 = ens.ensemble_config(N=N, R=R, P=P, samplers=[{"method": "lhs", "shared": shared}])

    def describe(self):
        return f"real LatinHypercube R={self.R} P={self.P} N={self.N} seed={self.seed} shared={self.shared}"

    def inputs(self, env):
        return {}

    def run(self, env, inp):
        from numpy.random import default_rng
        from ropt.plugins.sampler.scipy import SciPySampler
        return SciPySampler(self.cfg0, 0, None, default_rng(self.seed)).generate_samples()

    def props(self, env, inp, oc):
        if not oc.ok:
            return [("no_internal_exception:" + type(oc.exc).__name__, SB(False))]
        a = np.asarray(oc.value, dtype=float)
        if self.shared:
            a = a[:1]
        n = a.shape[0] * self.P
        pts = a.reshape(n, self.N)
        ok = True
        for j in range(self.N):
            strata = np.floor((pts[:, j] + 1) / 2 * n).astype(int)
            ok &= sorted(strata.tolist()) == list(range(n))
        return [("lhs_strata_are_a_permutation.qmc_point_integrity", SB(bool(ok)))]


def build_cases(tier):
    cases = []
    k = 0

    def add(cls=SamplerCase, *a, **kw):
        nonlocal k
        k += 1
        cases.append(cls(f"c17-{k:03d}", *a, **kw))

    for m in STATS + QMC:
        add(method=m, N=2, R=2, P=2)
        add(method=m, N=3, R=2, P=2, shared=True, mask=(True, False, True))
        add(method=m, N=3, R=1, P=3, sampler_map=(0, 1, 0), which=0, nsamplers=2)
        add(method=m, N=2, R=2, P=1, calls=2)
        # a sampler whose only variable is fixed: nothing it returns may be non-zero
        add(method=m, N=3, R=2, P=2, mask=(True, False, True), sampler_map=(0, 1, 0), which=1, nsamplers=2)
    add(method="uniform", N=2, R=2, P=2, options={"loc": -0.5, "scale": 1.0})
    add(method="truncnorm", N=1, R=2, P=2, options={"a": -2.0, "b": 2.0})
    add(method="lhs", N=3, R=3, P=2, mask=(False, True, True), sampler_map=(0, 1, 1), which=1, nsamplers=2)
    add(method="lhs", N=1, R=13, P=10)                      # 130 points: one design, asked for in one piece
    add(method="halton", N=1, R=1, P=140, shared=True)
    add(PipelineCase, methods=("uniform", "uniform"), sampler_map=(0, 1, 0), N=3)
    add(PipelineCase, methods=("truncnorm", "sobol"), sampler_map=(1, 0, 1), N=3, mask=(True, True, False))
    add(PipelineCase, methods=("lhs", "uniform", "halton"), sampler_map=(2, 0, 1, 0), N=4, evals=3)
    add(PipelineCase, methods=("lhs", "uniform"), sampler_map=(0, 0, 1, -2), N=4)     # a negative entry other than -1
    add(PipelineCase, methods=("norm", "sobol"), sampler_map=(-1, 1, 0), N=3)
    # sampler indices in use need not be contiguous (a configured sampler nothing refers to)
    add(PipelineCase, methods=("uniform", "norm", "lhs"), sampler_map=(0, 2, 2), N=3)
    add(PipelineCase, methods=("sobol", "uniform", "norm"), sampler_map=(2, 2, 2, 2), N=4, mask=(True, False, True, True))
    import os
    seed = int(os.environ.get("VERIF_SEED", "0") or 0)
    add(RealLhsCase, 2, 2, 2, seed)
    add(RealLhsCase, 3, 2, 3, seed + 1)
    add(RealLhsCase, 3, 4, 2, seed + 2, shared=True)
    if tier == "thorough":
        for m in STATS + QMC:
            add(method=m, N=3, R=3, P=3)
            add(method=m, N=3, R=3, P=2, shared=True, sampler_map=(1, 0, 1), which=1, nsamplers=2, calls=2)
        for s in range(5):
            add(RealLhsCase, 2, 3, 2, seed + 10 + s)
    return cases


META = dict(
    bounds={"quick": "every built-in method; N<=3 variables, R<=3, P<=3, shared on/off, masks and two-sampler assignments, 1-2 calls per sampler",
            "thorough": "R=P=N=3 for every method, repeated calls with sampler maps",
            "outside": "the numbers SciPy's distributions and QMC engines actually produce (behind the stubs); larger shapes"},
    stubs=["scipy.stats uniform/norm/truncnorm .rvs(size, random_state, **opts): fresh symbols inside the support, indexed by position in `size`",
           "QMC engines: engine.random(n) returns an n x d matrix of fresh symbols in [0,1], row i = point i",
           "scipy.stats.qmc.scale: the documented affine map per column"],
    assumptions=["two concrete companion cases run SciPy's real LatinHypercube engine and check one sample per stratum (validation of the stub contract)"],
)
