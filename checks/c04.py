"""C04 - CVaR filter weights realise the tail expectation over the worst fraction.

Encoded: DefaultRealizationFilter.get_realization_weights (cvar-objective, cvar-constraint) ->
_cvar_objectives/_cvar_constraint -> _get_cvar_weights_from_percentile.
A  real mode: symbolic values, failure flags and percentile; int(p*n) forks over the feasible floors.
B  Float64 mode: p a symbolic IEEE double, n concrete: the `p*n within one ulp of an integer` clause.
C  constraint flavour: what "worst" means per bound kind.
"""
from __future__ import annotations

from fractions import Fraction

import numpy as np
import z3

from symnp import SF, SymArray
from .common import (
    And, Case, Implies, Not, Or, SB, SR, all_of, clone_config, close, exact, inject, isnan, ite, make_config, ssum,
    too_few, vals,
)

BOUND = 1000
ONE, ZERO = SR(Fraction(1)), SR(Fraction(0))
TOLW = Fraction(1, 10**9)


def cvar_spec(bad, failed, p, out, n_total):
    """bad[i]: badness (larger = worse).  Tie-robust characterisation of the CVaR weights."""
    succ = [Not(x) for x in failed]
    n = ssum([ite(s, ONE, ZERO) for s in succ])
    props = []
    props.append(("nonnegative", all_of(And(Not(isnan(o)), o >= 0) for o in out)))
    props.append(("failed_get_zero", all_of(Implies(failed[i], exact(out[i], ZERO)) for i in range(n_total))))
    props.append(("sum_is_percentile", Implies(n >= 1, close(ssum(list(out)), p, TOLW))))
    props.append(("at_most_one_over_n", all_of(Implies(n >= 1, out[i] * n <= ONE + TOLW) for i in range(n_total))))
    frac = [And(out[i] > TOLW, out[i] * n < ONE - TOLW) for i in range(n_total)]
    props.append(("at_most_one_fractional",
                  all_of(Not(And(frac[i], frac[j])) for i in range(n_total) for j in range(i + 1, n_total))))
    props.append(("worse_gets_at_least_as_much",
                  all_of(Implies(And(succ[i], succ[j], SR(bad[i].v) > SR(bad[j].v)), out[i] >= out[j] - TOLW)
                         for i in range(n_total) for j in range(n_total) if i != j)))
    return props


class CvarCase(Case):
    def __init__(self, cid, *, n, kind="objective", K=1, sort=(0,), bounds=None, p_fixed=None):
        self.id = cid
        self.n, self.kind, self.K, self.sort, self.bounds, self.p_fixed = n, kind, K, sort, bounds, p_fixed
        self.family = f"cvar-{kind}" + (f"/{bounds}" if bounds else "")
        d = {
            "variables": {"initial_values": [0.0]},
            "objectives": {"weights": [1.0] * K},
            "realizations": {"weights": [1.0] * n, "realization_min_success": 0},
            "realization_filters": [{
                "method": f"cvar-{kind}",
                "options": {"sort": list(sort) if kind == "objective" else 0, "percentile": 0.5},
            }],
        }
        if kind == "constraint":
            lb, ub = {"upper": (-np.inf, 1.0), "lower": (1.0, np.inf), "equality": (1.0, 1.0)}[bounds]
            d["nonlinear_constraints"] = {"lower_bounds": [lb], "upper_bounds": [ub]}
        self.cfg0 = make_config(d)

    def describe(self):
        return f"cvar-{self.kind} n={self.n} K={self.K} sort={self.sort} bounds={self.bounds}"

    def inputs(self, env):
        n = self.n
        ow = env.reals("ow", self.K, lo=-1, hi=2)   # objective weights may be negative as long as they sum to one
        env.assume(ssum(list(ow)) == 1)
        failed = [env.flag(f"failed_{i}") for i in range(n)]
        p = env.real("p", lo=0, hi=1)
        env.assume(p > 0)
        f = env.reals("f", (n, self.K), lo=-BOUND, hi=BOUND)
        c = env.reals("c", (n, 1), lo=-BOUND, hi=BOUND) if self.kind == "constraint" else None
        rhs = env.real("rhs", lo=-BOUND, hi=BOUND) if self.kind == "constraint" else None
        for i in range(n):
            for k in range(self.K):
                f[i, k] = SR(f[i, k].v, failed[i].t)
            if c is not None:
                c[i, 0] = SR(c[i, 0].v, failed[i].t)
        return {"ow": ow, "failed": failed, "p": p, "f": f, "c": c, "rhs": rhs}

    def run(self, env, inp):
        from ropt.plugins.realization_filter.default import DefaultRealizationFilter

        cfg = clone_config(self.cfg0)
        inject(cfg.objectives, weights=env.arr(inp["ow"], writeable=False))
        if self.kind == "constraint":
            rhs = inp["rhs"]
            inf = SR(Fraction(0), False, 1)
            lb, ub = {"upper": (-inf, rhs), "lower": (rhs, inf), "equality": (rhs, rhs)}[self.bounds]
            inject(cfg.nonlinear_constraints,
                   lower_bounds=env.arr(np.array([lb], dtype=object), writeable=False),
                   upper_bounds=env.arr(np.array([ub], dtype=object), writeable=False))
        flt = DefaultRealizationFilter(cfg, 0)
        flt._filter_options.__dict__["percentile"] = env.num(inp["p"])
        return flt.get_realization_weights(env.arr(inp["f"]), None if inp["c"] is None else env.arr(inp["c"]))

    def badness(self, inp):
        n = self.n
        if self.kind == "objective":
            ow, f = list(inp["ow"]), inp["f"]
            if self.K > 1:
                return [ssum([ow[k] * SR(f[i, k].v) for k in self.sort]) for i in range(n)]
            return [SR(f[i, 0].v) for i in range(n)]
        c, rhs = inp["c"], inp["rhs"]
        if self.bounds == "upper":
            return [SR(c[i, 0].v) for i in range(n)]
        if self.bounds == "lower":
            return [-SR(c[i, 0].v) for i in range(n)]
        return [abs(SR(c[i, 0].v) - rhs) for i in range(n)]

    def props(self, env, inp, oc):
        failed = inp["failed"]
        nsucc = ssum([ite(x, ZERO, ONE) for x in failed])
        if not oc.ok:
            if too_few(oc.exc):
                return [("abort_only_without_successes", nsucc < 1)]
            return [("no_internal_exception:" + type(oc.exc).__name__, SB(False))]
        out = list(vals(oc.value))
        props = [("returns_only_with_successes", nsucc >= 1), ("shape", SB(len(out) == self.n))]
        props += cvar_spec(self.badness(inp), failed, inp["p"], out, self.n)
        props.append(("canary:uniform_weights", all_of(close(o, inp["p"] / self.n) for o in out)))
        return props

    def observe(self, env, inp, oc):
        return {"weights": oc.value} if oc.ok else {}


class CvarMappingCase(Case):
    """Two cvar-constraint filters in one evaluation: each must see the failures the evaluator reported."""

    family = "cvar-constraint/mapping"

    def __init__(self, cid, R=3, kind="constraint"):
        self.id, self.R, self.kind = cid, R, kind
        if kind == "objective":
            self.family = "cvar-objective/mapping"
            self.cfg0 = make_config({
                "variables": {"initial_values": [0.0]},
                "realizations": {"weights": [1.0] * R, "realization_min_success": 0},
                "objectives": {"weights": [1.0, 1.0], "realization_filters": [0, 1]},
                "realization_filters": [{"method": "cvar-objective", "options": {"sort": [0], "percentile": 0.5}},
                                        {"method": "cvar-objective", "options": {"sort": [1], "percentile": 0.5}}],
            })
            return
        self.cfg0 = make_config({
            "variables": {"initial_values": [0.0]},
            "realizations": {"weights": [1.0] * R, "realization_min_success": 0},
            "nonlinear_constraints": {"lower_bounds": [-np.inf, -np.inf], "upper_bounds": [1.0, 2.0], "realization_filters": [0, 1]},
            "realization_filters": [{"method": "cvar-constraint", "options": {"sort": 0, "percentile": 0.5}},
                                    {"method": "cvar-constraint", "options": {"sort": 1, "percentile": 0.5}}],
        })

    def describe(self):
        return f"two cvar-{self.kind} filters (sort 0, sort 1), R={self.R}, failures via the objective column"

    def inputs(self, env):
        R = self.R
        failed = [env.flag(f"failed_{i}") for i in range(R)]
        env.assume(Or(*[Not(x) for x in failed]))
        f = env.reals("f", (R, 2 if self.kind == "objective" else 1), lo=-BOUND, hi=BOUND)
        c = env.reals("c", (R, 2), lo=-BOUND, hi=BOUND)
        for i in range(R):
            f[i, 0] = SR(f[i, 0].v, failed[i].t)
        return {"failed": failed, "f": f, "c": c}

    def run(self, env, inp):
        from ropt.ensemble_evaluator import EnsembleEvaluator
        from ropt.evaluator import EvaluatorResult
        from .common import plugin_manager
        ee = EnsembleEvaluator(clone_config(self.cfg0), None,
                               lambda v, ctx: EvaluatorResult(objectives=env.arr(inp["f"]),
                                                              constraints=env.arr(inp["c"]) if self.kind == "constraint" else None),
                               plugin_manager())
        (res,) = ee.calculate(env.const(np.zeros(1)), compute_functions=True, compute_gradients=False)
        return res

    def props(self, env, inp, oc):
        if not oc.ok:
            return [("abort_is_too_few_realizations", SB(too_few(oc.exc)))]
        obj = self.kind == "objective"
        rows = vals(oc.value.realizations.objective_weights if obj else oc.value.realizations.constraint_weights)
        props = []
        half = SR(Fraction(1, 2))
        for k in range(2):
            bad = [SR((inp["f"] if obj else inp["c"])[i, k].v) for i in range(self.R)]
            props += [(f"filter{k}.{n}", p) for n, p in cvar_spec(bad, inp["failed"], half, list(rows[k]), self.R)]
        return props


class RepeatCase(Case):
    """One evaluator (hence one filter object) evaluates twice, with other values and another failure pattern the
    second time: the second weight vector is the CVaR vector of the second evaluation alone."""

    family = "cvar-objective/repeated"

    def __init__(self, cid, R=3):
        self.id, self.R = cid, R
        self.cfg0 = make_config({
            "variables": {"initial_values": [0.0]},
            "realizations": {"weights": [1.0] * R, "realization_min_success": 0},
            "objectives": {"weights": [1.0], "realization_filters": [0]},
            "realization_filters": [{"method": "cvar-objective", "options": {"sort": [0], "percentile": 0.5}}],
        })

    def describe(self):
        return f"cvar-objective, R={self.R}, two evaluations on one evaluator object"

    def inputs(self, env):
        R = self.R
        out = {}
        for e in (0, 1):
            failed = [env.flag(f"failed{e}_{i}") for i in range(R)]
            env.assume(Or(*[Not(x) for x in failed]))
            f = env.reals(f"f{e}", (R, 1), lo=-BOUND, hi=BOUND)
            for i in range(R):
                f[i, 0] = SR(f[i, 0].v, failed[i].t)
            out[e] = {"failed": failed, "f": f}
        return out

    def run(self, env, inp):
        from ropt.ensemble_evaluator import EnsembleEvaluator
        from ropt.evaluator import EvaluatorResult
        from .common import plugin_manager
        calls = []

        def evaluator(v, ctx):
            calls.append(1)
            return EvaluatorResult(objectives=env.arr(inp[len(calls) - 1]["f"]))

        ee = EnsembleEvaluator(clone_config(self.cfg0), None, evaluator, plugin_manager())
        out = []
        for e in (0, 1):
            try:
                (res,) = ee.calculate(env.const(np.array([0.5 * e])), compute_functions=True, compute_gradients=False)
                out.append(res)
            except Exception as exc:  # noqa: BLE001
                if not too_few(exc):
                    raise
                out.append(None)
        return out

    def props(self, env, inp, oc):
        if not oc.ok:
            return [("no_internal_exception:" + type(oc.exc).__name__, SB(False))]
        props = []
        half = SR(Fraction(1, 2))
        for e, res in enumerate(oc.value):
            if res is None:
                continue
            rows = vals(res.realizations.objective_weights)
            bad = [SR(inp[e]["f"][i, 0].v) for i in range(self.R)]
            props += [(f"evaluation{e}.{n}", p) for n, p in cvar_spec(bad, inp[e]["failed"], half, list(rows[0]), self.R)]
        return props

    def observe(self, env, inp, oc):
        return {}


class RoundingCase(Case):
    """B: the helper on IEEE doubles.  n successful realizations with distinct concrete values."""

    family = "cvar-rounding"

    def __init__(self, cid, n, nfail=0, check_sum=False):
        self.id = cid
        self.n = n
        self.nfail = nfail
        self.check_sum = check_sum   # the Float64 sum obligation costs 10-20 s per path: thorough tier only

    def describe(self):
        return f"Float64 percentile, n={self.n} successful (+{self.nfail} failed)"

    def inputs(self, env):
        p = env.double("p")
        if env.sym:
            env.assumptions.append(z3.And(z3.fpGT(p.t, z3.FPVal(0.0, z3.Float64())), z3.fpLEQ(p.t, z3.FPVal(1.0, z3.Float64()))))
        return {"p": p}

    def run(self, env, inp):
        from ropt.plugins.realization_filter.default import _get_cvar_weights_from_percentile

        m = self.n + self.nfail
        values = np.arange(m, dtype=float)[::-1].copy()
        failed = np.array([False] * self.n + [True] * self.nfail)
        if env.sym:
            values = SymArray(values)
        w = _get_cvar_weights_from_percentile(values, failed, inp["p"])
        return w

    def props(self, env, inp, oc):
        if not oc.ok:
            return [("no_internal_exception:" + type(oc.exc).__name__, SB(False))]
        w = oc.value
        items = list(w.a) if isinstance(w, SymArray) else [float(x) for x in w]
        pmax = 1.0 / self.n
        slack = pmax * (1 + 2.0**-50)
        props = []
        if env.sym:
            zero = z3.FPVal(0.0, z3.Float64())
            for i, x in enumerate(items):
                t = x.t if isinstance(x, SF) else z3.FPVal(x.to_float(), z3.Float64())
                props.append((f"w{i}.nonnegative", SB(z3.Not(z3.fpLT(t, zero)))))
                props.append((f"w{i}.at_most_one_over_n", SB(z3.fpLEQ(t, z3.FPVal(slack, z3.Float64())))))
                props.append((f"w{i}.not_nan", SB(z3.Not(z3.fpIsNaN(t)))))
            # no more (near-)full weights than the percentile allows: k_full/n <= p (comparisons with constants only)
            F64 = z3.Float64()
            thr = pmax * (1 - 2.0**-40)
            nfull_c = sum(1 for x in items if not isinstance(x, SF) and x.to_float() >= thr)
            sym = [x for x in items if isinstance(x, SF)]
            pt = inp["p"].t
            ok = z3.fpGEQ(pt, z3.FPVal(nfull_c / self.n - 1e-9, F64))
            for x in sym:
                ok = z3.And(ok, z3.Implies(z3.fpGEQ(x.t, z3.FPVal(thr, F64)), z3.fpGEQ(pt, z3.FPVal((nfull_c + 1) / self.n - 1e-9, F64))))
            props.append(("full_weights_do_not_exceed_percentile", SB(ok)))
            if self.check_sum:
                # the weights add up to the percentile (1e-9); concrete entries are summed first
                rne = z3.RNE()
                conc = sum(x.to_float() for x in items if not isinstance(x, SF))
                acc = z3.FPVal(conc, F64)
                for x in sym:
                    acc = z3.fpAdd(rne, acc, x.t)
                diff = z3.fpAbs(z3.fpSub(rne, acc, pt))
                props.append(("sum_is_percentile", SB(z3.fpLEQ(diff, z3.FPVal(1e-9, F64)))))
        else:
            for i, x in enumerate(items):
                props.append((f"w{i}.nonnegative", SB(not x < 0.0)))
                props.append((f"w{i}.at_most_one_over_n", SB(x <= slack)))
                props.append((f"w{i}.not_nan", SB(x == x)))
            thr = pmax * (1 - 2.0**-40)
            props.append(("full_weights_do_not_exceed_percentile", SB(sum(1 for x in items if x >= thr) / self.n - 1e-9 <= inp["p"])))
            if self.check_sum:
                props.append(("sum_is_percentile", SB(abs(sum(items) - inp["p"]) <= 1e-9)))
        return props

    def observe(self, env, inp, oc):
        return {}


def build_cases(tier):
    cases = []
    k = 0

    def add(cls, *a, **kw):
        nonlocal k
        k += 1
        cases.append(cls(f"c04-{k:03d}", *a, **kw))

    ns = (1, 2, 3) if tier == "quick" else (1, 2, 3, 4)
    for n in ns:
        add(CvarCase, n=n)
    add(CvarCase, n=3, K=2, sort=(0, 1))
    add(CvarCase, n=2, K=2, sort=(1,))
    for b in ("upper", "lower", "equality"):
        add(CvarCase, n=3 if tier == "quick" else 4, kind="constraint", bounds=b)
        add(CvarCase, n=2, kind="constraint", bounds=b)
    for n in range(1, (12 if tier == "quick" else 40) + 1):
        add(RoundingCase, n, check_sum=(tier == "thorough" and n <= 12))
    add(CvarMappingCase)
    add(CvarMappingCase, kind="objective")
    add(RepeatCase)
    add(RoundingCase, 5, 2)
    add(RoundingCase, 10, 1)
    return cases


META = dict(
    bounds={"quick": "A/C: n<=3 realizations, symbolic percentile in (0,1] (real), values in [-1000,1000]; B: every double p in (0,1], n<=12",
            "thorough": "A/C: n<=4; B: n<=40",
            "outside": "larger ensembles; in A/C the percentile arithmetic is over the reals (B covers the rounding)"},
    stubs=[],
    assumptions=[
        "a failed realization is NaN in every column (caller's contract, see C03/C06)",
        "ties between ranked values: only strictly worse realizations are required to get at least as much weight",
        "B: weights may exceed 1/n by one ulp-scale factor (1+2^-50)",
    ],
    timeout_ms={"quick": 20000, "thorough": 120000},
)
