"""C19 - plug-in lookup is deterministic, case-insensitive and side-effect free.

Encoded: PluginManager.__init__/add_plugin/get_plugin/is_supported/plugins, Plugin.allows_discovery,
the is_supported methods of the registered plug-ins (SciPy optimizer plug-in and stubs).
Symbolic: the looked-up method string (bounded printable-ASCII string: symbolic character codes and length).
Enumerated: registration histories (order, prioritisation, letter case of names) over a small universe of
stub plug-ins with overlapping method sets and discovery flags; one and two managers.
"""
from __future__ import annotations

import itertools

import z3

from symnp import SB
from symnp.core import b_and, b_not, b_or, zi
from symnp.strings import SymStr, set_candidates
from .common import And, Case, Iff, Implies, Not, Or

UNIVERSE = {  # name -> (methods, discoverable)
    "alpha": ({"m1", "m2"}, True),
    "beta": ({"m2", "m3"}, True),
    "gamma": ({"m1", "m3", "m4"}, False),
    "d": ({"m2", "p/q"}, True),          # a plug-in whose method names contain a slash (as the external optimizer's do)
}


def make_stub(name):
    from ropt.plugins.optimizer.base import OptimizerPlugin

    methods, disc = UNIVERSE[name]

    class Stub(OptimizerPlugin):
        label = name

        def create(self, *a, **k):
            raise NotImplementedError

        def is_supported(self, method):
            return method.lower() in methods

        @property
        def allows_discovery(self):
            return disc

    return Stub()


class LookupCase(Case):
    family = "plugin-lookup"

    def __init__(self, cid, history, maxlen=8, second_manager=False, later=(), via_context=False):
        """history: list of (registered name, universe key, prioritize); later: registrations made *after*
        a first lookup of the same string (the second lookup must see them)"""
        self.id, self.history, self.maxlen, self.second, self.later = cid, history, maxlen, second_manager, list(later)
        self.via_context = via_context   # the managers are the defaults two OptimizerContext objects fill in
        if self.later:
            self.family = "plugin-lookup/interleaved"

    def describe(self):
        return f"managers={'context defaults' if self.via_context else 'PluginManager()'} history={self.history} then_lookup_then={self.later} |method|<={self.maxlen} second_manager={self.second}"

    def inputs(self, env):
        return {"s": env.string("s", self.maxlen)}

    def build(self):
        from ropt.exceptions import ConfigError
        from ropt.plugins import PluginManager

        pm = self.new_manager()
        before = [n for n, _ in pm.plugins("optimizer")]
        dup = []
        for reg_name, key, prio in self.history:
            try:
                pm.add_plugin("optimizer", reg_name, make_stub(key), prioritize=prio)
                dup.append(False)
            except ConfigError:
                dup.append(True)
        return pm, before, dup

    def new_manager(self):
        from ropt.plugins import PluginManager
        if self.via_context:
            from ropt.plan import OptimizerContext
            return OptimizerContext(evaluator=lambda *a, **k: None).plugin_manager
        return PluginManager()

    def run(self, env, inp):
        from ropt.exceptions import ConfigError
        from ropt.plugins import PluginManager

        # the other manager exists before anything is registered on the first one
        other = self.new_manager() if self.second else None
        other_before = [n for n, _ in other.plugins("optimizer")] if other else None
        pm, before, dup = self.build()
        registry = list(pm.plugins("optimizer"))
        # every constant the symbolic string can meet in a dict or set
        cands = {n for n, _ in registry} | {r[0].lower() for r in self.later}
        for n, p in registry:
            cands |= self.methods_of(p)
        for r in self.later:
            cands |= set(UNIVERSE[r[1]][0])
        set_candidates(cands)
        s = inp["s"]
        try:
            got = pm.get_plugin("optimizer", s)
            err = None
        except ConfigError as e:
            got, err = None, e
        sup = pm.is_supported("optimizer", s)
        again = None
        try:
            again = pm.get_plugin("optimizer", s)
        except ConfigError:
            pass
        out = {"got": got, "err": err is not None, "sup": sup, "again": again, "registry": registry, "dup": dup,
               "before": before, "after": [n for n, _ in pm.plugins("optimizer")]}
        if self.later:
            for reg_name, key, prio in self.later:
                pm.add_plugin("optimizer", reg_name, make_stub(key), prioritize=prio)
            out["registry2"] = list(pm.plugins("optimizer"))
            try:
                out["got2"] = pm.get_plugin("optimizer", s)
            except ConfigError:
                out["got2"] = None
            out["sup2"] = pm.is_supported("optimizer", s)
        if other is not None:
            out["other_after"] = [n for n, _ in other.plugins("optimizer")]
            out["other_before"] = other_before
            try:
                out["other_got"] = other.get_plugin("optimizer", s)
            except ConfigError:
                out["other_got"] = None
        return out

    @staticmethod
    def methods_of(plugin):
        lab = getattr(plugin, "label", None)
        if lab is not None:
            return set(UNIVERSE[lab][0])
        import ropt.plugins.optimizer.scipy as S
        if isinstance(plugin, S.SciPyOptimizerPlugin):
            return set(S._SUPPORTED_METHODS) | {"default"}
        return set()  # external: delegates to a fresh manager; its names do not fit the length bound

    # ---- reference lookup
    def expected_registry(self, before):
        """order of names after the history: prioritised registrations go first"""
        order = list(before)
        seen = set(order)
        dup = []
        for reg_name, key, prio in self.history:
            n = reg_name.lower()
            if n in seen:
                dup.append(True)
                continue
            dup.append(False)
            seen.add(n)
            order = [n] + order if prio else order + [n]
        return order, dup

    def props(self, env, inp, oc):
        if not oc.ok:
            return [("no_internal_exception:" + type(oc.exc).__name__, SB(False))]
        o = oc.value
        s = inp["s"]
        props = []
        order, dup = self.expected_registry(o["before"])
        props.append(("duplicate_names_rejected_case_insensitively", SB(o["dup"] == dup)))
        props.append(("registration_order_with_prioritised_first", SB(o["after"] == order)))
        reg = dict(o["registry"])
        plugs = [(n, reg[n]) for n in order if n in reg]
        # condition under which the reference lookup returns plug-in X (None = ConfigError)
        if isinstance(s, str):
            exp = self.reference(plugs, s)
            props.append(("lookup_result_is_reference_result", SB(exp is o["got"])))
        else:
            conds = self.reference_sym(plugs, s)
            key = id(o["got"]) if o["got"] is not None else None
            props.append(("lookup_result_is_reference_result", SB(conds.get(key, False))))
        props.append(("is_supported_iff_lookup_succeeds", SB(bool(o["sup"]) == (o["got"] is not None))))
        props.append(("lookup_is_repeatable", SB(o["again"] is o["got"])))
        props.append(("undiscoverable_never_returned_for_bare_name",
                      SB(True) if o["got"] is None or o["got"].allows_discovery else self.has_slash(s)))
        if self.later:
            plugs2 = list(o["registry2"])
            if isinstance(s, str):
                exp2 = self.reference(plugs2, s)
                props.append(("lookup_after_later_registration_is_reference_result", SB(exp2 is o["got2"])))
            else:
                conds2 = self.reference_sym(plugs2, s)
                key2 = id(o["got2"]) if o["got2"] is not None else None
                props.append(("lookup_after_later_registration_is_reference_result", SB(conds2.get(key2, False))))
            props.append(("is_supported_after_later_registration", SB(bool(o["sup2"]) == (o["got2"] is not None))))
        if self.second:
            props.append(("other_manager_unaffected", SB(o["other_after"] == o["other_before"])))
            props.append(("other_manager_never_returns_added_plugin", SB(getattr(o["other_got"], "label", None) is None)))
        return props

    def has_slash(self, s):
        if isinstance(s, str):
            return SB("/" in s)
        return SB(b_or(*[b_and(zi(s.n) > k, zi(s.chars[k]) == 47) for k in range(len(s.chars))]))

    def reference(self, plugs, s):
        if "/" in s:
            p, m = s.split("/", 1)
            for n, pl in plugs:
                if n == p.lower():
                    return pl if m.lower() in self.methods_of(pl) else None
            return None
        for n, pl in plugs:
            if pl.allows_discovery and s.lower() in self.methods_of(pl):
                return pl
        return None

    def reference_sym(self, plugs, s):
        L = len(s.chars)
        low = s.lower()

        def sub_eq(start, length_term, const):
            """lower(s)[start : start+len] == const, where the substring length is length_term"""
            if start + len(const) > L:
                return False
            return b_and(length_term == len(const), *[zi(low.chars[start + i]) == ord(ch) for i, ch in enumerate(const)])

        no_slash = b_and(*[b_or(zi(s.n) <= k, zi(s.chars[k]) != 47) for k in range(L)])
        conds = {}
        found_any = []
        # plugin/method form
        for k in range(L):
            first_at_k = b_and(zi(s.n) > k, zi(s.chars[k]) == 47, *[zi(s.chars[j]) != 47 for j in range(k)])
            for n, pl in plugs:
                if len(n) != k:
                    continue
                name_ok = b_and(*[zi(low.chars[i]) == ord(ch) for i, ch in enumerate(n)])
                meth_ok = b_or(*[sub_eq(k + 1, zi(s.n) - (k + 1), m) for m in self.methods_of(pl)])
                c = b_and(first_at_k, name_ok, meth_ok)
                conds[id(pl)] = b_or(conds.get(id(pl), False), c)
                found_any.append(c)
        # bare method: first discoverable plug-in in order that supports it
        earlier = []
        for n, pl in plugs:
            if not pl.allows_discovery:
                continue
            sup = b_or(*[sub_eq(0, zi(s.n), m) for m in self.methods_of(pl)])
            c = b_and(no_slash, sup, *[b_not(e) for e in earlier])
            conds[id(pl)] = b_or(conds.get(id(pl), False), c)
            found_any.append(c)
            earlier.append(sup)
        conds[None] = b_not(b_or(*found_any))
        return conds

    def observe(self, env, inp, oc):
        return {}


class ExternalCase(LookupCase):
    """'external/<rest>': the external optimizer plug-in answers for what a *default* manager supports as <rest>
    (plug-ins added to the calling manager are unknown to the optimizer process it would start)."""

    family = "plugin-lookup/external"

    def __init__(self, cid, history, prefix="external/", maxlen=8):
        super().__init__(cid, history, maxlen=maxlen)
        self.prefix = prefix
        self.family = "plugin-lookup/external"

    def describe(self):
        return f"lookup of '{self.prefix}' + <symbolic string, |t|<={self.maxlen}> history={self.history}"

    def inputs(self, env):
        return {"t": env.string("t", self.maxlen)}

    def run(self, env, inp):
        from ropt.exceptions import ConfigError
        from ropt.plugins import PluginManager
        from symnp.core import i_fold

        pm, before, dup = self.build()
        registry = list(pm.plugins("optimizer"))
        default_registry = list(PluginManager().plugins("optimizer"))
        cands = {n for n, _ in registry}
        for n, p in registry:
            cands |= self.methods_of(p)
        set_candidates(cands)
        t = inp["t"]
        if isinstance(t, str):
            s = self.prefix + t
        else:
            s = SymStr([ord(c) for c in self.prefix] + list(t.chars), i_fold(zi(t.n) + len(self.prefix)))
        try:
            got, err = pm.get_plugin("optimizer", s), False
        except ConfigError:
            got, err = None, True
        sup = pm.is_supported("optimizer", s)
        return {"got": got, "err": err, "sup": sup, "default_registry": default_registry, "registry": registry}

    def props(self, env, inp, oc):
        if not oc.ok:
            return [("no_internal_exception:" + type(oc.exc).__name__, SB(False))]
        o = oc.value
        t = inp["t"]
        ext = dict(o["registry"])["external"]
        plugs = o["default_registry"]
        if isinstance(t, str):
            ok = SB(self.reference(plugs, t) is not None)
        else:
            ok = SB(b_not(self.reference_sym(plugs, t)[None]))
        props = [("external_answers_iff_a_default_manager_supports_the_rest", Iff(SB(o["got"] is ext), ok)),
                 ("otherwise_config_error", SB(o["got"] is ext or (o["got"] is None and o["err"]))),
                 ("is_supported_iff_lookup_succeeds", SB(bool(o["sup"]) == (o["got"] is not None)))]
        return props


def build_cases(tier):
    cases = []
    k = 0

    def add(history, **kw):
        nonlocal k
        k += 1
        cases.append(LookupCase(f"c19-{k:03d}", history, **kw))

    add([])
    add([("alpha", "alpha", False)])
    add([("Alpha", "alpha", False), ("BETA", "beta", False)])
    add([("alpha", "alpha", False), ("beta", "beta", True)])
    add([("beta", "beta", False), ("alpha", "alpha", False), ("gamma", "gamma", True)])
    add([("gamma", "gamma", False), ("alpha", "alpha", True), ("ALPHA", "beta", True)])   # duplicate after prioritisation
    add([("alpha", "alpha", True), ("beta", "beta", True)], second_manager=True)
    add([("scipy", "alpha", False), ("x", "gamma", False)])                               # duplicate of an entry-point plug-in
    add([("d", "d", False), ("alpha", "alpha", False)])                                      # 'd/p/q': only the first slash separates the plug-in name
    add([("Gauß", "alpha", True), ("GAUSS", "beta", False)])                                 # a non-ASCII name: lower-casing, not case folding
    add([("alpha", "alpha", False)], later=[("beta", "beta", True)])                         # lookup, prioritised add, lookup again
    add([], later=[("gamma", "gamma", True), ("alpha", "alpha", True)])
    add([("beta", "beta", False)], later=[("alpha", "alpha", False)], second_manager=True)
    add([("alpha", "alpha", True)], second_manager=True, via_context=True)     # default managers of two contexts
    for hist, prefix in (([], "external/"), ([("alpha", "alpha", False)], "External/"), ([("d", "d", True)], "external/")):
        k += 1
        cases.append(ExternalCase(f"c19-{k:03d}", hist, prefix=prefix))
    if tier == "thorough":
        names = ["alpha", "beta", "gamma"]
        for perm in itertools.permutations(names, 3):
            for prio in itertools.product([False, True], repeat=3):
                add([(n.upper() if i % 2 else n, n, p) for i, (n, p) in enumerate(zip(perm, prio))], maxlen=8)
        add([("alpha", "alpha", False), ("beta", "beta", True), ("gamma", "gamma", False), ("Beta", "gamma", True)], maxlen=10, second_manager=True)
    return cases


META = dict(
    bounds={"quick": "method strings of up to 8 printable-ASCII characters (every character and the length are solver variables); 8 registration histories of <=3 add_plugin calls over 3 stub plug-ins (overlapping methods, one undiscoverable) on top of the entry-point plug-ins; one or two managers; 'external/' + a symbolic string of up to 8 characters on managers with and without added plug-ins",
            "thorough": "all 48 ordered/prioritised histories of the three stubs; strings up to 10 characters",
            "outside": "longer names (doubly nested 'external/external/...'); non-ASCII case folding; plug-in types other than optimizer (same code path)"},
    stubs=["stub optimizer plug-ins with is_supported(method) = method.lower() in <set> and a discovery flag; the SciPy plug-in's own is_supported runs for real"],
    assumptions=["dict/set membership of the symbolic string is decided by forking over the registered names and method names (candidates) plus an 'other' class"],
    timeout_ms={"quick": 10000, "thorough": 30000},
)
