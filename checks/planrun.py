"""Shared plan-level harness for C14 / C15: a real Plan with real default steps, the scripted
optimizer plug-in, a flag-driven evaluator and recording observers/handlers."""
from __future__ import annotations

from fractions import Fraction

import numpy as np

from symnp import SB, SR
from symnp.harness import vals
from . import ens


class Recorder:
    """Observer for every event type + a ResultHandler plug-in instance per plan level."""

    def __init__(self):
        self.events = []      # (who, event_type name, source, has_results)
        self.raise_at = None  # (who, index, exception factory)
        self.count = {}

    def make_observer(self, who="observer"):
        def cb(event):
            self.note(who, event)
        return cb

    def note(self, who, event):
        n = self.count.get(who, 0)
        self.count[who] = n + 1
        self.events.append((who, event.event_type.name, event.source, "results" in event.data, id(event)))
        if self.raise_at is not None and self.raise_at[0] == who and self.raise_at[1] == n:
            raise self.raise_at[2]()


def user_abort():
    from ropt.enums import OptimizerExitCode
    from ropt.exceptions import OptimizationAborted
    return OptimizationAborted(exit_code=OptimizerExitCode.USER_ABORT)


def make_plan(evaluator, rec, *, parent=None, observer=True, handler_names=("h",)):
    """A real Plan; a recording ResultHandler is attached per name; observers on the context."""
    from ropt.enums import EventType
    from ropt.plan import OptimizerContext, Plan

    pm = ens.stub_optimizer_manager()
    _register_handler_plugin(pm)
    if parent is None:
        ctx = OptimizerContext(evaluator=evaluator, plugin_manager=pm)
        if observer:
            for et in EventType:
                ctx.add_observer(et, rec.make_observer("observer"))
        plan = Plan(ctx)
    else:
        plan = Plan(parent.optimizer_context, parent=parent)

    handlers = []
    for nm in handler_names:
        hid = plan.add_handler("verifrec/rec", recorder=rec, label=nm)
        handlers.append(hid)
    return plan, handlers


_REGISTERED = False


def _register_handler_plugin(pm):
    """The recording ResultHandler is a real plan_handler plug-in added through add_plugin."""
    global _REGISTERED
    if _REGISTERED:
        return
    from ropt.plugins.plan.base import PlanHandlerPlugin, ResultHandler

    class RecHandler(ResultHandler):
        def __init__(self, plan, recorder, label):
            super().__init__(plan)
            self.recorder, self.label = recorder, label

        def handle_event(self, event):
            self.recorder.note(self.label, event)

    class RecPlugin(PlanHandlerPlugin):
        def create(self, name, plan, **kwargs):
            return RecHandler(plan, **kwargs)

        def is_supported(self, method):
            return method.lower() == "rec"

    pm.add_plugin("plan_handler", "verifrec", RecPlugin())
    _REGISTERED = True


class FlagEvaluator:
    """objective = 1 + row index; NaN where the flag (evaluation, realization, perturbation) holds.
    Optionally raises its own exception, or the user abort, at a given call index."""

    def __init__(self, env, flags, C=0, raise_at=None, exc=None, nan_col=0):
        self.env, self.flags, self.C, self.raise_at, self.exc = env, flags, C, raise_at, exc
        self.nan_col = nan_col   # the column that carries the NaN of a failed row (0 = the objective)
        self.calls = []

    def __call__(self, variables, context):
        from ropt.evaluator import EvaluatorResult

        e = len(self.calls)
        self.calls.append(context)
        if self.raise_at is not None and e == self.raise_at:
            raise self.exc()
        n = variables.shape[0]
        out = np.empty((n, 1 + self.C), dtype=object)
        for i in range(n):
            r = int(context.realizations[i])
            p = -1 if context.perturbations is None else int(context.perturbations[i])
            fl = self.flags.get(("row", e, i), self.flags.get((e, r, p), SB(False)))
            for c in range(1 + self.C):
                out[i, c] = SR(Fraction(1 + i + 3 * c + r), fl.t if c == self.nan_col else False)
        return EvaluatorResult(objectives=self.env.arr(out[:, :1]), constraints=self.env.arr(out[:, 1:]) if self.C else None)


class EvaluatorError(Exception):
    """the user's evaluator failing for its own reasons"""
