"""C10 - perturbed variables honour magnitudes and boundary-type semantics.

Encoded: GradientConfig.fix_perturbations (called directly on a configuration holding symbolic bounds
and magnitudes), EnsembleEvaluator.calculate(gradients) -> _perturb_variables -> _apply_bounds, and
the evaluator request / GradientEvaluations that report the perturbed vectors.
Symbolic: x in [lb,ub], finite bound values, magnitudes, samples (any size).
Enumerated: per-variable boundary type, perturbation type, finite/infinite bound pattern.
"""
from __future__ import annotations

import itertools
from fractions import Fraction

import numpy as np

from symnp import SymArray
from .common import And, Case, Implies, Not, Or, SB, SR, all_of, clone_config, close, exact, inject, ite, ssum, vals
from . import ens

INF = SR(Fraction(0), False, 1)
BIG = 100


class PerturbCase(Case):
    family = "perturb"

    def __init__(self, cid, *, boundary, ptypes, bounds, R=1, P=1, two_samplers=False, sampler_map=None):
        """boundary/ptypes/bounds: per-variable tuples; bounds entries in {'both','lower','upper','none'}"""
        self.id = cid
        self.N = len(boundary)
        self.boundary, self.ptypes, self.bkind, self.R, self.P = boundary, ptypes, bounds, R, P
        self.two = (two_samplers and self.N >= 2) or sampler_map is not None
        self.sampler_map = list(sampler_map) if sampler_map is not None else (([0] + [1] * (self.N - 1)) if self.two else None)
        self.family = "perturb/" + "+".join(sorted(set(boundary)))
        lower = [0.0 if b in ("both", "lower") else -np.inf for b in bounds]
        upper = [1.0 if b in ("both", "upper") else np.inf for b in bounds]
        self.cfg0 = ens.ensemble_config(
            N=self.N, R=R, P=P, lower=lower, upper=upper, x0=[0.5] * self.N, boundary=boundary, ptypes=ptypes,
            magnitudes=0.1, rmin=1, pmin=1,
            samplers=[{"method": f"stub/s{i}"} for i in range(max(self.sampler_map) + 1)] if self.two else None,
            sampler_map=self.sampler_map,
        )

    def describe(self):
        return f"N={self.N} boundary={self.boundary} types={self.ptypes} bounds={self.bkind} R={self.R} P={self.P} sampler_map={self.sampler_map}"

    def inputs(self, env):
        N, R, P = self.N, self.R, self.P
        lb, ub, x = [], [], []
        for j in range(N):
            b = self.bkind[j]
            lo = env.real(f"lb_{j}", -BIG, BIG) if b in ("both", "lower") else -INF
            hi = env.real(f"ub_{j}", -BIG, BIG) if b in ("both", "upper") else INF
            if b == "both":
                env.assume(lo < hi)
            xj = env.real(f"x_{j}", -BIG, BIG)
            env.assume(And(xj >= lo, xj <= hi))
            lb.append(lo), ub.append(hi), x.append(xj)
        m = env.reals("m", N, lo=0, hi=10)
        for j in range(N):
            env.assume(m[j] > 0)
        s = env.reals("s", (R, P, N), lo=-50, hi=50)
        return {"lb": lb, "ub": ub, "x": x, "m": m, "s": s}

    def run(self, env, inp):
        from ropt.ensemble_evaluator import EnsembleEvaluator
        from ropt.evaluator import EvaluatorResult

        cfg = clone_config(self.cfg0)
        obj = lambda seq: np.array(list(seq), dtype=object)  # noqa: E731
        inject(cfg.variables, lower_bounds=env.arr(obj(inp["lb"]), writeable=False),
               upper_bounds=env.arr(obj(inp["ub"]), writeable=False))
        # the gradient section as configured: raw magnitudes and the configured perturbation types
        from ropt.enums import PerturbationType
        types = np.array([PerturbationType.ABSOLUTE if t == "absolute" else PerturbationType.RELATIVE for t in self.ptypes], dtype=np.ubyte)
        types.setflags(write=False)
        inject(cfg.gradient, perturbation_magnitudes=env.arr(inp["m"], writeable=False), perturbation_types=types)
        # what validation does with the configured magnitudes (relative -> fraction of the bound range)
        cfg.__dict__["gradient"] = cfg.gradient.fix_perturbations(cfg.variables, None)
        pm = ens.stub_manager()
        N = self.N

        def samples(sampler):
            a = np.array(inp["s"], dtype=object)
            if sampler.mask is not None:  # the sampler contract: zero outside the handled variables
                a = a.copy()
                for j in range(N):
                    if not sampler.mask[j]:
                        a[..., j] = SR(Fraction(0))
            return env.arr(a)

        ens.set_samples(samples)
        calls = []

        def ev(variables, context):
            calls.append((variables, context))
            n = variables.shape[0]
            return EvaluatorResult(objectives=np.full((n, 1), np.nan))  # nothing to estimate: perturbations only

        ee = EnsembleEvaluator(cfg, None, ev, pm)
        res = ee.calculate(env.arr(obj(inp["x"])), compute_functions=True, compute_gradients=True)
        return {"grad": res[1], "calls": calls, "magnitudes": cfg.gradient.perturbation_magnitudes}

    def props(self, env, inp, oc):
        if not oc.ok:
            return [("no_internal_exception:" + type(oc.exc).__name__, SB(False))]
        N, R, P = self.N, self.R, self.P
        lb, ub, x, m, s = inp["lb"], inp["ub"], inp["x"], inp["m"], inp["s"]
        pv = vals(oc.value["grad"].evaluations.perturbed_variables)
        req = vals(oc.value["calls"][0][0])
        mags = vals(oc.value["magnitudes"])
        props = [("shape", SB(pv.shape == (R, P, N)))]
        for j in range(N):
            M = m[j] if self.ptypes[j] == "absolute" else (ub[j] - lb[j]) * m[j]
            props.append((f"v{j}.effective_magnitude", close(mags[j], M)))
            for r in range(R):
                for p in range(P):
                    out = pv[r, p, j]
                    raw = x[j] + M * s[r, p, j]
                    if self.sampler_map is not None and self.sampler_map[j] < 0:
                        raw = x[j]   # no sampler is assigned to this variable
                    tag = f"v{j}.r{r}p{p}"
                    inside = And(raw >= lb[j], raw <= ub[j])
                    props.append((f"{tag}.inside_unchanged", Implies(inside, close(out, raw))))
                    props.append((f"{tag}.request_row_matches_report", exact(req[R + r * P + p, j], out)))
                    bt = self.boundary[j]
                    if bt == "none":
                        props.append((f"{tag}.none_is_untouched", close(out, raw)))
                    elif bt == "truncate_both":
                        props.append((f"{tag}.within_bounds", And(out >= lb[j], out <= ub[j])))
                        props.append((f"{tag}.truncate_clips",
                                      And(Implies(raw > ub[j], close(out, ub[j])), Implies(raw < lb[j], close(out, lb[j])))))
                    else:
                        props.append((f"{tag}.within_bounds", And(out >= lb[j], out <= ub[j])))
                        if self.bkind[j] == "both":
                            width = ub[j] - lb[j]
                            props.append((f"{tag}.mirror_reflects_upper",
                                          Implies(And(raw > ub[j], raw - ub[j] <= width), close(out, 2 * ub[j] - raw))))
                            props.append((f"{tag}.mirror_reflects_lower",
                                          Implies(And(raw < lb[j], lb[j] - raw <= width), close(out, 2 * lb[j] - raw))))
                            # larger overshoots are reflected again at the other bound (folded), up to 4 widths here
                            u, d = raw - ub[j], lb[j] - raw
                            for k in (1, 2, 3):
                                seg_u = And(u > width * k, u <= width * (k + 1))
                                seg_d = And(d > width * k, d <= width * (k + 1))
                                exp_u = (lb[j] + (u - width * k)) if k % 2 == 1 else (ub[j] - (u - width * k))
                                exp_d = (ub[j] - (d - width * k)) if k % 2 == 1 else (lb[j] + (d - width * k))
                                props.append((f"{tag}.mirror_folds_upper_overshoot_{k}_to_{k + 1}_widths", Implies(seg_u, close(out, exp_u))))
                                props.append((f"{tag}.mirror_folds_lower_overshoot_{k}_to_{k + 1}_widths", Implies(seg_d, close(out, exp_d))))
                        elif self.bkind[j] == "upper":
                            props.append((f"{tag}.mirror_reflects_upper", Implies(raw > ub[j], close(out, 2 * ub[j] - raw))))
                        elif self.bkind[j] == "lower":
                            props.append((f"{tag}.mirror_reflects_lower", Implies(raw < lb[j], close(out, 2 * lb[j] - raw))))
        props.append(("canary:never_clipped", all_of(close(pv[0, 0, j], x[j] + vals(oc.value["magnitudes"])[j] * s[0, 0, j]) for j in range(N))))
        return props

    def observe(self, env, inp, oc):
        if not oc.ok:
            return {}
        return {"perturbed": oc.value["grad"].evaluations.perturbed_variables}


def build_cases(tier):
    cases = []
    k = 0

    def add(**kw):
        nonlocal k
        k += 1
        cases.append(PerturbCase(f"c10-{k:03d}", **kw))

    btypes = ("none", "truncate_both", "mirror_both")
    # single variable: every boundary type x perturbation type x bound pattern
    for bt in btypes:
        for bk in ("both", "lower", "upper", "none"):
            add(boundary=(bt,), ptypes=("absolute",), bounds=(bk,))
        add(boundary=(bt,), ptypes=("relative",), bounds=("both",))
    # per-variable mixes
    add(boundary=("none", "mirror_both"), ptypes=("absolute", "relative"), bounds=("both", "both"))
    add(boundary=("truncate_both", "none"), ptypes=("relative", "absolute"), bounds=("both", "upper"))
    add(boundary=("mirror_both", "truncate_both"), ptypes=("absolute", "absolute"), bounds=("lower", "both"), R=2, P=1)
    add(boundary=("truncate_both", "mirror_both"), ptypes=("absolute", "absolute"), bounds=("both", "both"), two_samplers=True)
    add(boundary=("none",) * 4, ptypes=("absolute",) * 4, bounds=("both",) * 4, sampler_map=(-1, 1, 0, 1))     # unassigned variable first
    add(boundary=("truncate_both",) * 3, ptypes=("absolute",) * 3, bounds=("both",) * 3, sampler_map=(1, -1, 0))
    add(boundary=("none", "truncate_both", "mirror_both"), ptypes=("absolute",) * 3, bounds=("both",) * 3, sampler_map=(0, 2, 2))   # a configured sampler nothing refers to
    add(boundary=("none",) * 2, ptypes=("absolute",) * 2, bounds=("both",) * 2, sampler_map=(2, 2))
    # with a variable scaler (differential harness of C11): relative/absolute magnitudes in user units
    from .c11 import TransformCase
    for pt, bd in ((("relative", "absolute"), ("truncate_both", "none")), (("absolute", "relative"), ("mirror_both", "truncate_both"))):
        k += 1
        cases.append(TransformCase(f"c10-{k:03d}", N=2, L=0, C=0, ptypes=pt, boundary=bd, obj_scaler=False, con_scaler=False))
    k += 1   # one scale broadcast over all variables, no offsets
    cases.append(TransformCase(f"c10-{k:03d}", N=2, L=0, C=0, ptypes=("absolute", "relative"), boundary=("none", "truncate_both"),
                               obj_scaler=False, con_scaler=False, offsets=False, scale_form="size1"))
    # the configured fraction of the bound range, also when one gradient section object serves two configurations
    from .c18 import PerturbationCase
    for pt in (("relative", "absolute"), ("relative", "relative")):
        k += 1
        cases.append(PerturbationCase(f"c10-{k:03d}", pt))
    # the built-in samplers over repeated gradient evaluations of one evaluator: still x + magnitude x the own draw
    from .c17 import PipelineCase
    k += 1
    cases.append(PipelineCase(f"c10-{k:03d}", methods=("uniform", "norm"), sampler_map=(0, 1, 0), N=3, evals=3))
    if tier == "thorough":
        for combo in itertools.product(btypes, repeat=2):
            add(boundary=combo, ptypes=("relative", "absolute"), bounds=("both", "both"), P=2)
        add(boundary=btypes, ptypes=("absolute", "relative", "absolute"), bounds=("both", "both", "none"), R=2, P=2)
        add(boundary=("mirror_both", "none", "truncate_both"), ptypes=("absolute",) * 3, bounds=("upper", "lower", "both"), two_samplers=True)
    return cases


META = dict(
    bounds={"quick": "N<=2 variables, R<=2, P<=1; bounds/x in [-100,100], magnitudes in (0,10], samples in [-50,50] (overshoots of many bound widths)",
            "thorough": "N<=3, R<=2, P<=2, all pairs of boundary types",
            "outside": "larger shapes; rounding (tolerance 1e-6 relative)"},
    stubs=["sampler plug-in `stub`: returns the symbolic sample array (zero outside the variables it handles)",
           "evaluator: returns NaN objectives (only the requested perturbed vectors are observed)"],
    assumptions=["x lies inside its bounds; finite lower < upper", "MIRROR_BOTH equals the single reflection when the overshoot is at most one bound width"],
)
