"""Shared machinery for harnesses that drive EnsembleEvaluator.calculate with gradients:
a stub sampler plug-in (injected designs), an affine evaluator with symbolic slopes and
failure flags, and the reference formulas for failures / weights / gradients."""
from __future__ import annotations

import itertools
from fractions import Fraction

import numpy as np

from symnp import SB, SR, SymArray, tor
from symnp.harness import And, Implies, Not, Or, all_of, close, exact, isnan, ite, ssum, vals
from .common import make_config

ONE, ZERO = SR(Fraction(1)), SR(Fraction(0))


# --------------------------------------------------------------------------
# stub sampler plug-in
# --------------------------------------------------------------------------
class _Provider:
    """Mutable holder so one PluginManager (slow to build) serves every run."""

    def __init__(self):
        self.fn = None
        self.created = []


_PROVIDER = _Provider()
_PM = None


def stub_manager():
    """A PluginManager with the sampler plug-in `stub` registered (method name `stub/<anything>`)."""
    global _PM
    if _PM is None:
        from ropt.plugins import PluginManager
        from ropt.plugins.sampler.base import Sampler, SamplerPlugin

        class StubSampler(Sampler):
            def __init__(self, cfg, idx, mask, rng):
                self.idx, self.mask, self.rng = idx, mask, rng
                self.calls = 0

            def generate_samples(self):
                self.calls += 1
                return _PROVIDER.fn(self)

        class StubSamplerPlugin(SamplerPlugin):
            def create(self, cfg, idx, mask, rng):
                s = StubSampler(cfg, idx, mask, rng)
                _PROVIDER.created.append(s)
                return s

            def is_supported(self, method):
                return True

        _PM = PluginManager()
        _PM.add_plugin("sampler", "stub", StubSamplerPlugin())
    _PROVIDER.created = []
    return _PM


def set_samples(fn):
    """fn(sampler) -> array (R|1, P, N) handed out by every stub sampler call"""
    _PROVIDER.fn = fn


# --------------------------------------------------------------------------
# configuration builder
# --------------------------------------------------------------------------
def ensemble_config(*, N, R, P, K=1, C=0, mask=None, lower=-100.0, upper=100.0, x0=None, magnitudes=0.1,
                    boundary="truncate_both", ptypes="absolute", pmin=1, rmin=1, merge=False, estimators=("mean",),
                    obj_est=None, con_est=None, filters=(), obj_filt=None, con_filt=None, samplers=None,
                    sampler_map=None, seed=1, extra=None, context=None, linear=None, con_bounds=None):
    from ropt.enums import BoundaryType, PerturbationType

    bt = {"none": BoundaryType.NONE, "truncate_both": BoundaryType.TRUNCATE_BOTH, "mirror_both": BoundaryType.MIRROR_BOTH}
    pt = {"absolute": PerturbationType.ABSOLUTE, "relative": PerturbationType.RELATIVE}
    boundary = [boundary] * N if isinstance(boundary, str) else list(boundary)
    ptypes = [ptypes] * N if isinstance(ptypes, str) else list(ptypes)
    d = {
        "variables": {
            "initial_values": list(x0) if x0 is not None else [0.0] * N,
            "lower_bounds": lower if np.ndim(lower) == 0 else list(lower),
            "upper_bounds": upper if np.ndim(upper) == 0 else list(upper),
        },
        "objectives": {"weights": [1.0] * K},
        "realizations": {"weights": [1.0] * R, "realization_min_success": rmin},
        "gradient": {
            "number_of_perturbations": P, "perturbation_min_success": pmin,
            "perturbation_magnitudes": magnitudes if np.ndim(magnitudes) == 0 else list(magnitudes),
            "boundary_types": [int(bt[b]) for b in boundary],
            "perturbation_types": [int(pt[t]) for t in ptypes],
            "merge_realizations": merge, "seed": seed,
        },
        "function_estimators": [{"method": m} for m in estimators],
        "realization_filters": list(filters),
        "samplers": list(samplers) if samplers is not None else [{"method": "stub/x"}],
    }
    if sampler_map is not None:
        d["gradient"]["samplers"] = list(sampler_map)
    if mask is not None:
        d["variables"]["mask"] = list(mask)
    if obj_est is not None:
        d["objectives"]["function_estimators"] = list(obj_est)
    if obj_filt is not None:
        d["objectives"]["realization_filters"] = list(obj_filt)
    if C:
        lb, ub = con_bounds if con_bounds is not None else ([0.0] * C, [np.inf] * C)
        d["nonlinear_constraints"] = {"lower_bounds": list(lb), "upper_bounds": list(ub)}
        if con_est is not None:
            d["nonlinear_constraints"]["function_estimators"] = list(con_est)
        if con_filt is not None:
            d["nonlinear_constraints"]["realization_filters"] = list(con_filt)
    if linear is not None:
        d["linear_constraints"] = linear
    if extra:
        for k, v in extra.items():
            if isinstance(v, dict) and k in d:
                d[k].update(v)
            else:
                d[k] = v
    return make_config(d, context=context)


# --------------------------------------------------------------------------
# affine evaluator with symbolic slopes, offsets and failure flags
# --------------------------------------------------------------------------
class AffineEvaluator:
    """value(row, function f) = A[r, f, :] . x_row + c[r, f]; NaN in column nan_col(r, p)
    when flag[(r, p)] holds (p = -1 for the unperturbed row).  Records every call."""

    def __init__(self, env, A, c, flags, nfun_obj, nan_col=None, garbage=None):
        self.env, self.A, self.c, self.flags, self.K = env, A, c, flags, nfun_obj
        self.nan_col = nan_col or (lambda r, p: 0)
        self.garbage = garbage  # optional: fn(row_index, r, p, f, active) -> SR or None
        self.calls = []

    def value(self, r, f, xrow):
        acc = self.c[r, f]
        for j in range(len(xrow)):
            acc = acc + self.A[r, f, j] * xrow[j]
        return acc

    def __call__(self, variables, context):
        from ropt.evaluator import EvaluatorResult

        F = self.A.shape[1]
        xs = vals(variables)
        nrows = xs.shape[0]
        out = np.empty((nrows, F), dtype=object)
        for i in range(nrows):
            r = int(context.realizations[i])
            p = -1 if context.perturbations is None else int(context.perturbations[i])
            fl = self.flags.get((r, p), SB(False)) if isinstance(self.flags, dict) else SB(False)
            col = self.nan_col(r, p)
            for f in range(F):
                v = self.value(r, f, list(xs[i]))
                if self.garbage is not None:
                    g = self.garbage(i, r, p, f, context)
                    if g is not None:
                        v = g
                if f == col:
                    v = SR(v.v, fl.t if isinstance(fl, SB) else fl, v.inf)
                out[i, f] = v
        objs, cons = out[:, : self.K], out[:, self.K:]
        res = EvaluatorResult(
            objectives=self.env.arr(objs),
            constraints=self.env.arr(cons) if F > self.K else None,
        )
        self.calls.append((variables, context, res))
        return res


# --------------------------------------------------------------------------
# reference formulas
# --------------------------------------------------------------------------
def fail_flags_functions(flags, R):
    return [flags.get((r, -1), SB(False)) for r in range(R)]


def fail_flags_gradients(flags, R, P, pmin):
    """failed[r] <=> unperturbed row NaN or fewer than pmin NaN-free perturbation rows"""
    out = []
    for r in range(R):
        nsucc = ssum([ite(flags.get((r, p), SB(False)), ZERO, ONE) for p in range(P)])
        out.append(Or(flags.get((r, -1), SB(False)), nsucc < pmin))
    return out


def well_conditioned(D):
    """full column rank and sigma_min^2 >= 1% of the total (the property's premise), D concrete"""
    D = np.asarray(D, dtype=float)
    if D.shape[0] < D.shape[1] or D.size == 0:
        return False
    s = np.linalg.svd(D, compute_uv=False)
    s2 = s**2
    return bool(s2.sum() > 0 and s2.min() >= 0.01 * s2.sum() * (1 + 1e-9) and np.linalg.matrix_rank(D) == D.shape[1])


def conditioning_premise(deltas, flags, r, P):
    """Symbolic: the successful perturbations of realization r form a well-conditioned matrix.
    deltas: concrete (P, n) matrix for realization r."""
    terms = []
    for S in itertools.product([False, True], repeat=P):  # S[p] = perturbation p succeeded
        rows = [p for p in range(P) if S[p]]
        if not rows or not well_conditioned(deltas[rows, :]):
            continue
        terms.append(And(*[(Not(flags.get((r, p), SB(False))) if S[p] else flags.get((r, p), SB(False))) for p in range(P)]))
    return Or(*terms) if terms else SB(False)


# --------------------------------------------------------------------------
# scripted optimizer plug-in ("symstub"): issues a bounded script of callback requests
# --------------------------------------------------------------------------
class _OptProvider:
    def __init__(self):
        self.script = None      # fn(optimizer, initial_values) -> None : performs the requests
        self.allow_nan = False
        self.parallel = False
        self.created = []


_OPT = _OptProvider()
_OPM = None


def stub_optimizer_manager():
    """A PluginManager with sampler `stub` and optimizer `symstub` registered."""
    global _OPM
    if _OPM is None:
        from ropt.plugins.optimizer.base import Optimizer, OptimizerPlugin

        pm = stub_manager()

        class ScriptedOptimizer(Optimizer):
            def __init__(self, config, optimizer_callback):
                self.config, self.callback = config, optimizer_callback
                self.log = []

            def start(self, initial_values):
                _OPT.script(self, initial_values)

            @property
            def allow_nan(self):
                return _OPT.allow_nan

            @property
            def is_parallel(self):
                return _OPT.parallel

        class ScriptedPlugin(OptimizerPlugin):
            def create(self, config, optimizer_callback):
                o = ScriptedOptimizer(config, optimizer_callback)
                _OPT.created.append(o)
                return o

            def is_supported(self, method):
                return True

        pm.add_plugin("optimizer", "symstub", ScriptedPlugin())
        _OPM = pm
    stub_manager()  # resets the sampler provider bookkeeping
    _OPT.created = []
    return _OPM


def set_script(fn, allow_nan=False, parallel=False):
    _OPT.script, _OPT.allow_nan, _OPT.parallel = fn, allow_nan, parallel


def created_optimizers():
    return _OPT.created


# --------------------------------------------------------------------------
# user-side transforms (as users write them, cf. tests/test_optimizer.py)
# --------------------------------------------------------------------------
def make_transforms(var_scales=None, var_offsets=None, obj_scales=None, con_scales=None):
    from ropt.transforms import OptModelTransforms, VariableScaler
    from ropt.transforms.base import NonLinearConstraintTransform, ObjectiveTransform

    class ObjectiveScaler(ObjectiveTransform):
        def __init__(self, scales):
            self._scales = scales

        def to_optimizer(self, objectives):
            return objectives / self._scales

        def from_optimizer(self, objectives):
            return objectives * self._scales

    class ConstraintScaler(NonLinearConstraintTransform):
        def __init__(self, scales):
            self._scales = scales

        def bounds_to_optimizer(self, lower_bounds, upper_bounds):
            return lower_bounds / self._scales, upper_bounds / self._scales

        def to_optimizer(self, constraints):
            return constraints / self._scales

        def from_optimizer(self, constraints):
            return constraints * self._scales

        def nonlinear_constraint_diffs_from_optimizer(self, lower_diffs, upper_diffs):
            return lower_diffs * self._scales, upper_diffs * self._scales

    return OptModelTransforms(
        variables=VariableScaler(var_scales, var_offsets) if (var_scales is not None or var_offsets is not None) else None,
        objectives=ObjectiveScaler(obj_scales) if obj_scales is not None else None,
        nonlinear_constraints=ConstraintScaler(con_scales) if con_scales is not None else None,
    )
