"""C20 - external-process runs: process death is never success (partial).

Encoded: ExternalOptimizer.start/_handle_request/_atexit against stubbed Popen, pipe communicator, os.kill
and time.sleep.  Symbolic schedule: after how many exchanged messages the child dies abnormally and with
which return code, at which evaluation the parent's callback raises, how often a write/read comes back
empty (solver integers).
Not claimed: equality of external and in-process traces (two real SciPy runs), real FIFO/OS timing,
absence of hangs beyond the bounded schedule.
"""
from __future__ import annotations

import numpy as np

from .common import And, Case, Implies, Not, Or, SB, SR, all_of, clone_config, exact, isnan, vals
from . import ens
from symnp.core import PathAbort


class Hang(Exception):
    pass


class CallbackError(Exception):
    pass


class ExternalCase(Case):
    family = "external-process"

    def __init__(self, cid, *, nevals=2, error_at=None, abort_kind="exception", write_error=False):
        """error_at: the child reports an error instead of evaluation number error_at"""
        self.id, self.nevals, self.error_at, self.abort_kind = cid, nevals, error_at, abort_kind
        self.write_error = write_error
        self.cfg0 = ens.ensemble_config(N=2, R=1, P=1, extra={"optimizer": {"method": "external/slsqp"}})
        self.msgs = ["config", "initial_values"]
        for e in range(nevals):
            if error_at == e:
                self.msgs.append({"error": "boom"})
                break
            self.msgs.append({"evaluation": {"variables": [0.1 * e, 0.2], "return_functions": True, "return_gradients": e % 2 == 1}})
        self.family = "external-process" + ("/child-error" if error_at is not None else "")

    def describe(self):
        return f"messages={len(self.msgs)} evaluations={self.nevals} child_error_at={self.error_at} callback_raises={self.abort_kind} unsendable_answer={self.write_error}"

    def inputs(self, env):
        n = len(self.msgs)
        return {
            "die_after": env.integer("die_after", 0, n + 1),     # n+1: the child is never killed
            "rc": env.integer("rc", 1, 4),                         # 1: error exit, 2: -9 (SIGKILL), 3: other, 4: -15 (SIGTERM)
            "raise_at": env.integer("raise_at", 0, self.nevals),  # nevals: the callback never raises
            "wfail": env.integer("wfail", 0, 2),
            "rempty": env.integer("rempty", 0, 1),
            # the parent's k-th answer cannot be sent at all (e.g. it is not JSON-serialisable); n: never
            "wexc": env.integer("wexc", 0, n) if self.write_error else n,
        }

    def run(self, env, inp):
        import ropt.plugins.optimizer.external as X

        die_after, raise_at = int(inp["die_after"]), int(inp["raise_at"])
        rc_abn = {1: 1, 2: -9, 3: 3, 4: -15}[int(inp["rc"])]
        wfail, rempty = int(inp["wfail"]), int(inp["rempty"])
        wexc = int(inp["wexc"])
        msgs = self.msgs
        st = {"exchanged": 0, "pending": False, "sent": 0, "abort_written": False, "polls": 0, "killed": [], "waited": 0,
              "answers": [], "wf": 0, "re": 0, "atexit": 0, "evals": 0}

        def child_rc():
            """None while the child lives"""
            if st["exchanged"] >= die_after and die_after <= len(msgs):
                return rc_abn
            if st["abort_written"]:
                # the child got 'abort': after reporting an error it exits 1, otherwise (callback abort) 0
                return 1 if isinstance(msgs[st["sent"] - 1], dict) and "error" in msgs[st["sent"] - 1] else 0
            if st["exchanged"] >= len(msgs):
                return 0
            return None

        class FakeProc:
            pid = 4242
            returncode = None

            def poll(self):
                st["polls"] += 1
                if st["polls"] > 400:
                    raise Hang("start() keeps polling")
                self.returncode = child_rc()
                return self.returncode

            def wait(self, timeout=None):
                st["waited"] += 1
                self.returncode = child_rc() if child_rc() is not None else -15
                return self.returncode

        class FakeSubprocess:
            TimeoutExpired = X.subprocess.TimeoutExpired

            @staticmethod
            def Popen(args):  # noqa: N802
                st["popen"] = args
                return FakeProc()

        class FakeComm:
            def __init__(self, *a, **k):
                pass

            def __enter__(self):
                return self

            def __exit__(self, *a):
                st["closed"] = True

            def read(self):
                if child_rc() is not None or st["pending"] or st["sent"] >= len(msgs):
                    return None
                if st["re"] < rempty:
                    st["re"] += 1
                    return None
                st["re"] = 0
                st["pending"] = True
                st["sent"] += 1
                return msgs[st["sent"] - 1]

            def write(self, answer):
                if len(st["answers"]) == wexc and answer != "abort":
                    st["write_raised"] = True
                    raise TypeError("Object of type PosixPath is not JSON serializable")
                if st["wf"] < wfail:
                    st["wf"] += 1
                    return False
                st["wf"] = 0
                st["answers"].append(answer)
                if answer == "abort":
                    st["abort_written"] = True
                st["pending"] = False
                st["exchanged"] += 1
                return True

        class FakeOs:
            def __getattr__(self, k):
                return getattr(X.os.__class__, k) if False else getattr(__import__("os"), k)

            def kill(self, pid, sig):
                st["killed"].append((pid, sig, child_rc()))
                if child_rc() is not None:
                    raise ProcessLookupError

        def callback(variables, *, return_functions, return_gradients):
            e = st["evals"]
            st["evals"] += 1
            if e == raise_at:
                if self.abort_kind == "aborted":   # ropt's own callback stops the run (max_functions, user abort, too few realizations)
                    from ropt.enums import OptimizerExitCode
                    from ropt.exceptions import OptimizationAborted
                    raise OptimizationAborted(exit_code=OptimizerExitCode.MAX_FUNCTIONS_REACHED)
                raise CallbackError("evaluator failed")
            return np.array([1.0 + e]), (np.array([[0.5, e]]) if return_gradients else np.array([]))

        class FakeTime:
            @staticmethod
            def sleep(t):
                pass

        class FakeAtexit:
            @staticmethod
            def register(f):
                st["atexit"] += 1

        old = (X.subprocess, X._JSONPipeCommunicator, X.os, X.time, X.atexit)
        try:
            opt = X.ExternalOptimizer(clone_config(self.cfg0), callback)
            X.subprocess, X._JSONPipeCommunicator, X.os, X.time, X.atexit = FakeSubprocess, FakeComm, FakeOs(), FakeTime, FakeAtexit
            raised = None
            try:
                opt.start(np.array([0.0, 0.2]))
            except Hang:
                raise
            except BaseException as e:  # noqa: BLE001
                raised = e
        finally:
            X.subprocess, X._JSONPipeCommunicator, X.os, X.time, X.atexit = old
        return {"raised": raised, "st": st, "die_after": die_after, "raise_at": raise_at, "rc": rc_abn, "final_rc": child_rc()}

    def props(self, env, inp, oc):
        if not oc.ok:
            if isinstance(oc.exc, Hang):
                return [("start_terminates_within_the_bounded_schedule", SB(False))]
            return [("no_internal_exception:" + type(oc.exc).__name__, SB(False))]
        o = oc.value
        st, raised = o["st"], o["raised"]
        n = len(self.msgs)
        died = o["die_after"] <= n and st["exchanged"] >= o["die_after"] and not st["abort_written"]
        callback_raised = st["evals"] > o["raise_at"]
        child_error = any(isinstance(m, dict) and "error" in m for m in self.msgs[: st["sent"]])
        props = []
        if st.get("write_raised"):
            # whatever else happened: the failure is reported and nothing is left running
            props.append(("unsendable_answer_is_an_error", SB(raised is not None)))
        elif callback_raised and not died:
            if self.abort_kind == "aborted":
                from ropt.exceptions import OptimizationAborted
                props.append(("abort_of_the_callback_is_propagated", SB(isinstance(raised, OptimizationAborted))))
            else:
                props.append(("evaluator_exception_is_propagated", SB(isinstance(raised, CallbackError))))
        elif child_error and not died:
            props.append(("child_error_is_raised", SB(isinstance(raised, RuntimeError))))
        elif died:
            props.append(("abnormal_child_death_is_never_success", SB(raised is not None)))
        else:
            props.append(("normal_run_returns", SB(raised is None)))
            evs = [a for a in st["answers"] if isinstance(a, dict) and "functions" in a]
            props.append(("all_requests_answered", SB(len(st["answers"]) == n and isinstance(st["answers"][0], dict)
                                                      and st["answers"][1] == [0.0, 0.2] and len(evs) == self.nevals)))
        # nothing is left running: the child is dead, or it was signalled and waited for
        terminated = o["final_rc"] is not None or (any(k[1] == 15 or k[1] for k in st["killed"]) and st["waited"] > 0)
        props.append(("no_process_left_running", SB(bool(terminated) and st["waited"] > 0)))
        return props

    def observe(self, env, inp, oc):
        return {}


class ChildCase(Case):
    """The child side of the protocol (_PluginOptimizer.run): it must start the wrapped optimizer from the
    initial values the parent sends (not from the configuration's), after asking for the configuration."""

    family = "external-process/child"

    def __init__(self, cid, nevals=2):
        self.id, self.nevals = cid, nevals

    def describe(self):
        return f"child-side protocol, {self.nevals} evaluations"

    def inputs(self, env):
        return {"x0": env.integer("x0_tenths", -9, 9)}     # the start point the parent answers with (tenths)

    def run(self, env, inp):
        import ropt.plugins.optimizer.external as X
        from .common import make_config

        start = [int(inp["x0"]) / 10.0, 0.25]
        cfg = make_config({"variables": {"initial_values": [0.7, -0.7]}, "optimizer": {"method": "external/symstub/x"}})
        pm = ens.stub_optimizer_manager()
        seen = {}

        def script(opt, x0):
            seen["x0"] = np.array(x0, dtype=float).tolist()
            for e in range(self.nevals):
                seen.setdefault("answers", []).append(opt.callback(np.array([0.1 * e, 0.2]), return_functions=True, return_gradients=False))

        ens.set_script(script)
        requests = []

        class FakeComm:
            def __init__(self, *a, **k):
                self.pending = None

            def __enter__(self):
                return self

            def __exit__(self, *a):
                pass

            def write(self, data):
                requests.append(data)
                self.pending = data
                return True

            def read(self):
                d, self.pending = self.pending, None
                if d == "config":
                    return cfg.model_dump(round_trip=True)
                if d == "initial_values":
                    return start
                if isinstance(d, dict) and "evaluation" in d:
                    return {"functions": [1.5], "gradients": []}
                return None

        old = (X._JSONPipeCommunicator, X.PluginManager, X.os)

        class FakeOs:
            def __getattr__(self, k):
                return getattr(__import__("os"), k)

            def kill(self, pid, sig):
                return None

        X._JSONPipeCommunicator, X.PluginManager, X.os = FakeComm, (lambda: pm), FakeOs()
        try:
            import pathlib
            rc = X._PluginOptimizer(1).run(pathlib.Path("/nonexistent/a"), pathlib.Path("/nonexistent/b"))
        finally:
            X._JSONPipeCommunicator, X.PluginManager, X.os = old
        return {"rc": rc, "requests": requests, "seen": seen, "start": start}

    def props(self, env, inp, oc):
        if not oc.ok:
            return [("no_internal_exception:" + type(oc.exc).__name__, SB(False))]
        o = oc.value
        kinds = [r if isinstance(r, str) else next(iter(r)) for r in o["requests"]]
        return [("child_asks_for_config_then_initial_values_then_evaluations", SB(kinds == ["config", "initial_values"] + ["evaluation"] * self.nevals)),
                ("optimizer_started_from_the_parents_initial_values", SB(o["seen"].get("x0") == o["start"])),
                ("normal_exit_code", SB(o["rc"] == 0))]


class _ChildKilled(BaseException):
    """SIGTERM delivered to the (thread that plays the) optimizer process"""


def _jsonish(obj):
    """What a value looks like after json.dumps(cls=NumpyEncoder) / json.loads: arrays and tuples become lists,
    numbers (NaN and infinities included), booleans and strings come back unchanged."""
    from symnp import SymArray
    if isinstance(obj, SymArray):
        return _jsonish(obj.tolist())
    if isinstance(obj, np.ndarray):
        return _jsonish(obj.tolist())
    if isinstance(obj, dict):
        return {str(k): _jsonish(v) for k, v in obj.items()}
    if isinstance(obj, (list, tuple)):
        return [_jsonish(v) for v in obj]
    return obj


class LoopbackCase(Case):
    """Both real halves of the protocol wired together: ExternalOptimizer.start on the parent side and
    _PluginOptimizer.run on the optimizer-process side (a thread; the FIFO pair is a pair of queues carrying
    JSON-shaped values).  The same scripted algorithm is then run in-process; the two traces must be identical."""

    family = "external-process/loopback"

    def __init__(self, cid, *, script, parallel=False, abort_at=None, algorithm_fails_at=None):
        """script: (batch size or 0, return_functions, return_gradients) per request of the algorithm"""
        self.id, self.script, self.parallel, self.abort_at, self.fails_at = cid, tuple(script), parallel, abort_at, algorithm_fails_at
        self.N, self.F = 2, 2
        self.cfg_ext = ens.ensemble_config(N=2, R=1, P=1, C=1, extra={"optimizer": {"method": "external/symstub/x", "parallel": parallel}})
        self.cfg_in = ens.ensemble_config(N=2, R=1, P=1, C=1, extra={"optimizer": {"method": "symstub/x", "parallel": parallel}})

    def describe(self):
        return (f"loopback script={self.script} parallel={self.parallel} callback_aborts_at={self.abort_at} "
                f"algorithm_raises_at={self.fails_at}")

    def inputs(self, env):
        n = len(self.script)
        pts, F, G = [], [], []
        for e, (b, fn, gr) in enumerate(self.script):
            rows = max(1, b)
            pts.append(env.reals(f"x{e}", (rows, self.N), lo=-10, hi=10))
            f = env.reals(f"f{e}", (rows, self.F), lo=-100, hi=100)
            for i in range(rows):
                f[i, 0] = SR(f[i, 0].v, env.flag(f"nan{e}_{i}").t)     # the back-end may be handed NaN
            F.append(f)
            G.append(env.reals(f"g{e}", (self.F, self.N), lo=-100, hi=100))
        return {"pts": pts, "F": F, "G": G, "x0": env.reals("x0", self.N, lo=-10, hi=10)}

    # ---- one run of the scripted algorithm against a recording callback
    def _algorithm(self, env, inp, seen):
        def script(opt, x0):
            seen["x0"] = x0
            for e, (b, fn, gr) in enumerate(self.script):
                if self.fails_at == e:
                    raise ArithmeticError("boom")
                x = env.arr(inp["pts"][e] if b else inp["pts"][e][0])
                seen.setdefault("received", []).append(opt.callback(x, return_functions=fn, return_gradients=gr))
        return script

    def _callback(self, env, inp, calls):
        def callback(variables, *, return_functions, return_gradients):
            e = len(calls)
            calls.append((variables, return_functions, return_gradients))
            if self.abort_at == e:
                from ropt.enums import OptimizerExitCode
                from ropt.exceptions import OptimizationAborted
                raise OptimizationAborted(exit_code=OptimizerExitCode.MAX_FUNCTIONS_REACHED)
            b = self.script[e][0] if e < len(self.script) else 0
            f = env.arr(inp["F"][e] if b else inp["F"][e][0]) if return_functions else env.const(np.array([]))
            g = env.arr(inp["G"][e]) if return_gradients else env.const(np.array([]))
            return f, g
        return callback

    def run(self, env, inp):
        import queue
        import threading

        import ropt.plugins.optimizer.external as X

        pm = ens.stub_optimizer_manager()
        # ---------------- in-process
        seen_in, calls_in = {}, []
        ens.set_script(self._algorithm(env, inp, seen_in), parallel=self.parallel)
        out_in = None
        try:
            pm.get_plugin("optimizer", "symstub/x").create(clone_config(self.cfg_in), self._callback(env, inp, calls_in)).start(env.arr(inp["x0"]))
        except (PathAbort, KeyboardInterrupt, SystemExit):
            raise
        except BaseException as e:  # noqa: BLE001
            out_in = e
        # ---------------- through the external plug-in, both halves real
        seen_ex, calls_ex = {}, []
        ens.set_script(self._algorithm(env, inp, seen_ex), parallel=self.parallel)
        link = {"p2c": queue.Queue(), "c2p": queue.Queue(), "done": threading.Event(), "killed": False, "rc": None, "exc": None,
                "thread": None, "signals": [], "waited": 0, "polls": 0}

        def check_child():
            if link["exc"] is not None:
                exc, link["exc"] = link["exc"], None
                raise exc     # a path decision taken in the child thread (or a harness bug) belongs to the explorer

        class FakeComm:
            def __init__(self, read_pipe, write_pipe, timeout=1.0):
                self.child = threading.current_thread() is link["thread"]

            def __enter__(self):
                return self

            def __exit__(self, *a):
                pass

            def read(self):
                q = link["p2c"] if self.child else link["c2p"]
                while True:
                    if self.child and link["killed"]:
                        raise _ChildKilled
                    try:
                        return q.get(timeout=0.005)
                    except queue.Empty:
                        if not self.child:
                            check_child()
                            if link["done"].is_set() and q.empty():
                                return None

            def write(self, data):
                if self.child and link["killed"]:
                    raise _ChildKilled
                (link["c2p"] if self.child else link["p2c"]).put(_jsonish(data))
                return True

        class FakeProc:
            pid = 4243
            returncode = None

            def poll(self):
                link["polls"] += 1
                if link["polls"] > 2000:
                    raise Hang("start() keeps polling")
                check_child()
                if link["done"].is_set():
                    self.returncode = link["rc"]
                return self.returncode

            def wait(self, timeout=None):
                link["waited"] += 1
                link["thread"].join(5)
                check_child()
                self.returncode = link["rc"]
                return self.returncode

        def child_main(args):
            import pathlib
            try:
                link["rc"] = X._PluginOptimizer(int(args[3])).run(pathlib.Path(args[1]), pathlib.Path(args[2]))
            except _ChildKilled:
                link["rc"] = -15
            except SystemExit as e:
                link["rc"] = int(e.code or 0)
            except BaseException as e:  # noqa: BLE001 - handed to the parent thread
                link["exc"], link["rc"] = e, 70
            finally:
                link["done"].set()

        class FakeSubprocess:
            TimeoutExpired = X.subprocess.TimeoutExpired

            @staticmethod
            def Popen(args):  # noqa: N802
                link["thread"] = threading.Thread(target=child_main, args=(args,), daemon=True)
                link["thread"].start()
                return FakeProc()

        class FakeOs:
            def __getattr__(self, k):
                return getattr(__import__("os"), k)

            def kill(self, pid, sig):
                if sig == 0:
                    return None                     # the child asking whether its parent lives
                link["signals"].append((sig, link["done"].is_set()))
                if link["done"].is_set():
                    raise ProcessLookupError
                link["killed"] = True

        class FakeTime:
            @staticmethod
            def sleep(t):
                pass

        class FakeAtexit:
            @staticmethod
            def register(f):
                pass

        old = (X.subprocess, X._JSONPipeCommunicator, X.os, X.time, X.atexit, X.PluginManager)
        out_ex = None
        try:
            X.PluginManager = lambda: pm
            opt = X.ExternalOptimizer(clone_config(self.cfg_ext), self._callback(env, inp, calls_ex))
            X.subprocess, X._JSONPipeCommunicator, X.os, X.time, X.atexit = FakeSubprocess, FakeComm, FakeOs(), FakeTime, FakeAtexit
            try:
                opt.start(env.arr(inp["x0"]))
            except (Hang, PathAbort, KeyboardInterrupt, SystemExit):
                raise
            except BaseException as e:  # noqa: BLE001
                out_ex = e
            flags = (opt.allow_nan, opt.is_parallel)
        finally:
            link["killed"] = True
            if link["thread"] is not None:
                link["thread"].join(5)
            X.subprocess, X._JSONPipeCommunicator, X.os, X.time, X.atexit, X.PluginManager = old
        alive = link["thread"] is not None and link["thread"].is_alive()
        return {"in": (seen_in, calls_in, out_in), "ex": (seen_ex, calls_ex, out_ex), "alive_after_start": alive,
                "rc": link["rc"], "flags": flags, "waited": link["waited"]}

    def props(self, env, inp, oc):
        if not oc.ok:
            if isinstance(oc.exc, Hang):
                return [("start_terminates_within_the_bounded_schedule", SB(False))]
            return [("no_internal_exception:" + type(oc.exc).__name__, SB(False))]
        (seen_i, calls_i, out_i), (seen_e, calls_e, out_e) = oc.value["in"], oc.value["ex"]
        props = []

        def same(tag, a, b):
            a, b = np.asarray(vals(a), dtype=object), np.asarray(vals(b), dtype=object)
            if a.shape != b.shape:
                props.append((f"{tag}.same_shape", SB(False)))
                return
            props.append((tag, all_of(Or(And(isnan(p), isnan(q)), exact(p, q)) for p, q in zip(a.flat, b.flat))))

        props.append(("same_number_of_evaluations", SB(len(calls_i) == len(calls_e))))
        for e, (ci, ce) in enumerate(zip(calls_i, calls_e)):
            same(f"evaluation{e}.same_variables", ci[0], ce[0])
            props.append((f"evaluation{e}.same_request_flags", SB((bool(ci[1]), bool(ci[2])) == (bool(ce[1]), bool(ce[2])))))
        ri, re_ = seen_i.get("received", []), seen_e.get("received", [])
        props.append(("algorithm_receives_the_same_number_of_answers", SB(len(ri) == len(re_))))
        for e, (a, b) in enumerate(zip(ri, re_)):
            same(f"answer{e}.same_functions", a[0], b[0])
            same(f"answer{e}.same_gradients", a[1], b[1])
        if "x0" in seen_i and "x0" in seen_e:
            same("algorithm_starts_from_the_same_point", seen_i["x0"], seen_e["x0"])
        else:
            props.append(("algorithm_started_on_both_sides", SB(("x0" in seen_i) == ("x0" in seen_e))))
        # outcome
        from ropt.exceptions import OptimizationAborted
        if out_i is None:
            props.append(("same_outcome.normal_completion", SB(out_e is None)))
        elif isinstance(out_i, OptimizationAborted):
            props.append(("same_outcome.abort_with_the_same_exit_code",
                          SB(isinstance(out_e, OptimizationAborted) and out_e.exit_code == out_i.exit_code)))
        else:
            props.append(("same_outcome.algorithm_error_is_an_error", SB(out_e is not None and not isinstance(out_e, OptimizationAborted))))
        props.append(("no_process_left_running", SB(not oc.value["alive_after_start"] and oc.value["waited"] > 0)))
        return props

    def observe(self, env, inp, oc):
        return {}


class PipeCase(Case):
    """The real _JSONPipeCommunicator on a model of a non-blocking FIFO pair: os.write accepts at most as many bytes
    as the pipe has room for (a symbolic capacity) and reports how many it took; the reader drains the pipe whenever
    it polls.  A message that write() reported as sent must arrive complete, and both sides retry as ropt's loops
    do (write until True, read until not None) - within a bounded number of polls, i.e. without hanging."""

    family = "external-process/pipe"

    def __init__(self, cid, nitems=12, drain_every=1):
        self.id, self.nitems, self.drain_every = cid, nitems, drain_every
        self.message = {"evaluation": {"variables": [round(0.125 * i, 3) for i in range(nitems)], "return_functions": True,
                                       "return_gradients": False}}

    def describe(self):
        import json
        return f"one message of {len(json.dumps(self.message)) + 11} bytes through a FIFO with symbolic capacity; reader polls every {self.drain_every} write attempts"

    def inputs(self, env):
        # capacity in units of 16 bytes: 1..16 (16 bytes .. 256 bytes); the message is longer than the small ones
        return {"cap": env.integer("capacity_16", 1, 16)}

    def run(self, env, inp):
        import io
        import pathlib

        import ropt.plugins.optimizer.external as X

        cap = 16 * int(inp["cap"])
        pipe = {"buf": bytearray(), "fds": {}, "next": 10}

        class FakeOs:
            O_RDONLY, O_WRONLY, O_NONBLOCK = 0, 1, 2048

            def __getattr__(self, k):
                return getattr(__import__("os"), k)

            def mkfifo(self, path):
                return None

            def open(self, path, flags):
                pipe["next"] += 1
                pipe["fds"][pipe["next"]] = (str(path), flags & 1)
                return pipe["next"]

            def close(self, fd):
                return None

            def dup(self, fd):
                return fd

            def write(self, fd, data):
                room = cap - len(pipe["buf"])
                if room <= 0:
                    raise BlockingIOError
                n = min(room, len(data))
                pipe["buf"] += bytes(data[:n])
                return n

            def fdopen(self, fd, mode="r", encoding=None):
                data = bytes(pipe["buf"])
                pipe["buf"].clear()              # whatever is in the pipe is consumed by this reader
                return io.StringIO(data.decode(encoding or "utf-8"))

        class FakeSelector:
            def __init__(self):
                self.reg = []

            def register(self, fd, ev):
                self.reg.append((fd, ev))

            def close(self):
                pass

            def select(self, timeout=None):
                out = []
                for fd, ev in self.reg:
                    if ev == 1 and len(pipe["buf"]) > 0:
                        out.append((None, 1))
                    if ev == 2 and len(pipe["buf"]) < cap:
                        out.append((None, 2))
                return out

        class FakeSelectors:
            EVENT_READ, EVENT_WRITE = 1, 2
            DefaultSelector = FakeSelector
            BaseSelector = FakeSelector

        old = (X.os, X.selectors)
        X.os, X.selectors = FakeOs(), FakeSelectors
        try:
            a, b = pathlib.Path("/nonexistent/fifo_a"), pathlib.Path("/nonexistent/fifo_b")
            with X._JSONPipeCommunicator(b, a) as writer, X._JSONPipeCommunicator(a, b) as reader:
                sent, got, polls = False, None, 0
                while got is None and polls < 200:
                    polls += 1
                    if not sent:
                        sent = bool(writer.write(self.message))
                    if polls % self.drain_every == 0:
                        got = reader.read()
                return {"sent": sent, "got": got, "polls": polls}
        finally:
            X.os, X.selectors = old

    def props(self, env, inp, oc):
        if not oc.ok:
            return [("no_internal_exception:" + type(oc.exc).__name__, SB(False))]
        o = oc.value
        return [("message_arrives_within_the_bounded_schedule", SB(o["got"] is not None)),
                ("message_arrives_complete", SB(o["got"] is None or o["got"] == self.message))]

    def observe(self, env, inp, oc):
        return {}


class ConfigPipeCase(PipeCase):
    """The first answer of the protocol is the dumped configuration: whatever a validated configuration can hold
    (paths, infinities, enums, nested tuples) must get through the real pipe encoder and validate to the same thing."""

    family = "external-process/pipe"

    def __init__(self, cid, extra):
        from .common import make_config
        self.id, self.extra, self.drain_every = cid, extra, 1
        d = {"variables": {"initial_values": [0.0, 1.0], "lower_bounds": [-np.inf, 0.0], "upper_bounds": 2.0},
             "optimizer": {"method": "external/slsqp"}}
        for k, v in extra.items():
            d.setdefault(k, {}).update(v)
        self.cfg = make_config(d)
        self.message = self.cfg.model_dump(round_trip=True)

    def describe(self):
        return f"configuration dump with {self.extra} through the pipe encoder"

    def props(self, env, inp, oc):
        from ropt.config.enopt import EnOptConfig
        if not oc.ok:
            return [("no_internal_exception:" + type(oc.exc).__name__, SB(False))]
        got = oc.value["got"]
        props = [("message_arrives_within_the_bounded_schedule", SB(got is not None))]
        if got is not None:
            try:
                again = EnOptConfig.model_validate(got)
                import json
                canon = lambda d: json.dumps(d, sort_keys=True, default=lambda o_: o_.tolist() if hasattr(o_, "tolist") else str(o_))  # noqa: E731
                same = canon(again.model_dump(round_trip=True)) == canon(self.cfg.model_dump(round_trip=True))
            except Exception:  # noqa: BLE001
                same = False
            props.append(("received_configuration_validates_to_the_same_configuration", SB(same)))
        return props


class FlagsCase(Case):
    """The external wrapper must advertise exactly the capabilities of the wrapped in-process optimizer
    (allow_nan, is_parallel): they decide how ropt treats failed evaluations and batches, hence whether the
    external run can equal the in-process one."""

    family = "external-process/capabilities"

    def __init__(self, cid, method, parallel):
        self.id, self.method, self.parallel = cid, method, parallel

    def describe(self):
        return f"external/{self.method} parallel={self.parallel}"

    def inputs(self, env):
        return {}

    def run(self, env, inp):
        import ropt.plugins.optimizer.external as X
        from ropt.plugins import PluginManager
        from .common import make_config

        d = {"variables": {"initial_values": [0.0, 0.0], "lower_bounds": -1.0, "upper_bounds": 1.0},
             "optimizer": {"method": f"external/{self.method}", "parallel": self.parallel}}
        ext = X.ExternalOptimizer(make_config(d), lambda *a, **k: None)
        d["optimizer"]["method"] = self.method
        cfg = make_config(d)
        inner = PluginManager().get_plugin("optimizer", self.method).create(cfg, lambda *a, **k: None)
        return {"ext": (ext.allow_nan, ext.is_parallel), "inner": (inner.allow_nan, inner.is_parallel)}

    def props(self, env, inp, oc):
        if not oc.ok:
            return [("no_internal_exception:" + type(oc.exc).__name__, SB(False))]
        e, i = oc.value["ext"], oc.value["inner"]
        return [("allow_nan_as_in_process", SB(bool(e[0]) == bool(i[0]))), ("is_parallel_as_in_process", SB(bool(e[1]) == bool(i[1])))]


def build_cases(tier):
    cases = []
    k = 0

    def add(**kw):
        nonlocal k
        k += 1
        cases.append(ExternalCase(f"c20-{k:03d}", **kw))

    add(nevals=2)
    add(nevals=1)
    add(nevals=2, error_at=1)
    add(nevals=2, error_at=0)
    add(nevals=2, write_error=True)          # an answer that cannot be serialised
    add(nevals=2, abort_kind="aborted")     # ropt's own abort (budget, user abort) raised on the parent side
    k += 1
    cases.append(ChildCase(f"c20-{k:03d}"))
    for method, par in (("slsqp", False), ("differential_evolution", False), ("differential_evolution", True), ("scipy/nelder-mead", False)):
        k += 1
        cases.append(FlagsCase(f"c20-{k:03d}", method, par))
    for kw in (dict(script=((0, True, False), (0, False, True), (0, True, True))),
               dict(script=((2, True, False), (0, True, True)), parallel=True),
               dict(script=((0, True, False), (0, True, True)), abort_at=1),
               dict(script=((0, True, False), (0, True, False)), algorithm_fails_at=1),
               dict(script=((0, True, True),), abort_at=0)):
        k += 1
        cases.append(LoopbackCase(f"c20-{k:03d}", **kw))
    k += 1
    cases.append(PipeCase(f"c20-{k:03d}", nitems=12))
    k += 1
    cases.append(PipeCase(f"c20-{k:03d}", nitems=2))
    k += 1
    cases.append(PipeCase(f"c20-{k:03d}", nitems=20, drain_every=3))
    for extra in ({}, {"optimizer": {"output_dir": "/tmp/ropt-out", "max_functions": 5}},
                  {"optimizer": {"stdout": "out.txt", "options": {"ftol": 1e-3}}, "gradient": {"seed": (3, 4)}},
                  {"optimizer": {"options": {"maxiter": np.int64(3), "ftol": np.float64(1e-4)}}}):    # NumPy scalars as option values
        k += 1
        cases.append(ConfigPipeCase(f"c20-{k:03d}", extra))
    if tier == "thorough":
        add(nevals=4)
        add(nevals=4, error_at=2)
        add(nevals=3, error_at=0)
    return cases


META = dict(
    bounds={"quick": "protocols of 3-4 messages (config, initial values, 1-2 evaluations or a child error); the child dies after any number of exchanged messages with return code 1, -9 or 3, or never; the callback raises (its own exception, or ropt's OptimizationAborted) at any evaluation or never; an answer that cannot be sent; loopback of both real protocol halves with scripted algorithms (1-3 requests, single points and batches, symbolic points, values and NaN flags, aborts and algorithm errors); messages of 100-300 bytes through a FIFO of 16..256 bytes; configuration dumps through the real encoder; 0-2 failed writes and 0-1 empty reads per message",
            "thorough": "4 evaluations",
            "outside": "trace equality for real SciPy algorithms (the loopback runs scripted algorithms); the kernel's FIFO and signal delivery (a FIFO pair is modelled by a byte buffer of symbolic capacity); timing; hangs beyond the bounded number of polls"},
    stubs=["PipeCase: os.open/write/fdopen/dup/close and selectors model a non-blocking FIFO pair of symbolic capacity (16..256 bytes); os.write takes what fits and says how much", "subprocess.Popen / process.poll / wait: follow the symbolic life schedule", "_JSONPipeCommunicator: read() hands out the scripted protocol messages, write() succeeds after a symbolic number of failures",
           "os.kill (ProcessLookupError when the child is dead), time.sleep, atexit.register"],
    assumptions=["the child follows ropt's own protocol (_PluginOptimizer): it waits for an answer to each request, exits 0 after a normal run or an abort, 1 after reporting an error"],
)
