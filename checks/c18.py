"""C18 - validated configurations are canonical, frozen and stable under re-validation (partial).

Encoded symbolically (validators called directly on model_construct'ed objects holding symbolic arrays):
  RealizationsConfig/ObjectiveFunctionsConfig normalisation (`normalize`), success-threshold clamping,
  VariablesConfig / NonlinearConstraintsConfig / LinearConstraintsConfig bound checks,
  GradientConfig.fix_perturbations (applied twice: idempotence), immutable_array / broadcast helpers.
Encoded on real validated objects (structure enumerated, every reachable attribute visited):
  ImmutableBaseModel._is_immutable / __setattr__, write-protection of every stored array,
  model_dump(round_trip) -> model_validate round trip.
Not claimed: pydantic-core's own coercion of field values.
"""
from __future__ import annotations

import itertools
from fractions import Fraction

import numpy as np

from symnp import SymArray
from .common import And, Case, Implies, Not, Or, SB, SR, all_of, close, exact, isnan, ite, make_config, ssum, vals
from . import ens

ZERO = SR(Fraction(0))
INF = SR(Fraction(0), False, 1)


class NormalizeCase(Case):
    family = "config/normalize"

    def __init__(self, cid, n, which="realizations"):
        self.id, self.n, self.which = cid, n, which

    def describe(self):
        return f"{self.which} weights, n={self.n}, symbolic threshold"

    def inputs(self, env):
        w = env.reals("w", self.n, lo=-100, hi=100)        # entries may be negative as long as the sum is positive
        env.assume(ssum(list(w)) >= Fraction(1, 1000))
        return {"w": w, "rmin": env.integer("rmin", 0, self.n + 2)}

    def run(self, env, inp):
        from ropt.config.enopt import ObjectiveFunctionsConfig, RealizationsConfig

        w = env.arr(inp["w"], writeable=False)
        if self.which == "realizations":
            obj = RealizationsConfig.model_construct(weights=w, realization_min_success=env.num(inp["rmin"]))
            out = RealizationsConfig._broadcast_normalize_and_check(obj)
            twice = RealizationsConfig._broadcast_normalize_and_check(out.model_copy())
            return {"w": out.weights, "rmin": out.realization_min_success, "frozen": out._is_immutable, "w2": twice.weights,
                    "rmin2": twice.realization_min_success}
        obj = ObjectiveFunctionsConfig.model_construct(weights=w, realization_filters=None, function_estimators=None)
        out = ObjectiveFunctionsConfig._broadcast_and_normalize(obj)
        twice = ObjectiveFunctionsConfig._broadcast_and_normalize(out.model_copy())
        return {"w": out.weights, "rmin": None, "frozen": out._is_immutable, "w2": twice.weights, "rmin2": None}

    def props(self, env, inp, oc):
        if not oc.ok:
            return [("no_internal_exception:" + type(oc.exc).__name__, SB(False))]
        o = oc.value
        w = list(inp["w"])
        out = list(np.asarray(vals(o["w"]), dtype=object))
        out2 = list(np.asarray(vals(o["w2"]), dtype=object))
        tot = ssum(w)
        props = [("weights_sum_to_one", close(ssum(out), SR(Fraction(1)))),
                 ("ratios_preserved", all_of(close(out[i] * tot, w[i]) for i in range(self.n))),
                 ("array_write_protected", SB(not o["w"].flags.writeable)),
                 ("object_frozen", SB(bool(o["frozen"]))),
                 ("normalisation_idempotent", all_of(close(out2[i], out[i]) for i in range(self.n)))]
        if o["rmin"] is not None:
            rm = inp["rmin"]
            got = o["rmin"]
            gt = got._real() if hasattr(got, "_real") else SR(Fraction(int(got)))
            exp = ite(rm > self.n, SR(Fraction(self.n)), rm._real())
            props.append(("threshold_clamped_to_ensemble_size", exact(gt, exp)))
            g2 = o["rmin2"]
            g2 = g2._real() if hasattr(g2, "_real") else SR(Fraction(int(g2)))
            props.append(("threshold_idempotent", exact(g2, gt)))
        return props

    def observe(self, env, inp, oc):
        return {"w": oc.value["w"]} if oc.ok else {}


class BoundsCase(Case):
    """lower > upper is rejected (variables, non-linear and linear constraint bounds)."""

    family = "config/bounds"

    def __init__(self, cid, which, n=2, scaled=False):
        self.id, self.which, self.n, self.scaled = cid, which, n, scaled

    def describe(self):
        return f"{self.which} bounds, n={self.n}, variable scaler with symbolic (possibly negative) scales in the context: {self.scaled}"

    def inputs(self, env):
        d = {"lo": env.reals("lo", self.n, lo=-10, hi=10), "hi": env.reals("hi", self.n, lo=-10, hi=10)}
        if self.scaled:
            d["s"] = env.reals("s", self.n, lo=-4, hi=4)
            for j in range(self.n):
                env.assume(Or(d["s"][j] >= Fraction(1, 4), d["s"][j] <= Fraction(-1, 4)))
        return d

    def run(self, env, inp):
        from ropt.config.enopt import LinearConstraintsConfig, NonlinearConstraintsConfig, VariablesConfig

        lo, hi = env.arr(inp["lo"], False), env.arr(inp["hi"], False)

        class Info:
            context = None

        if self.scaled:
            Info.context = ens.make_transforms(var_scales=env.arr(inp["s"]))
        if self.which == "variables":
            obj = VariablesConfig.model_construct(initial_values=env.const(np.zeros(self.n), False), lower_bounds=lo,
                                                  upper_bounds=hi, types=None, mask=None)
            out = VariablesConfig._broadcast_and_transform(obj, Info())
        elif self.which == "nonlinear":
            obj = NonlinearConstraintsConfig.model_construct(lower_bounds=lo, upper_bounds=hi, realization_filters=None,
                                                             function_estimators=None)
            out = NonlinearConstraintsConfig._broadcast_and_check(obj, Info())
        else:
            obj = LinearConstraintsConfig.model_construct(coefficients=env.const(np.ones((self.n, 2)), False), lower_bounds=lo, upper_bounds=hi)
            out = LinearConstraintsConfig._broadcast_and_check(obj)
        return {"lo": out.lower_bounds, "hi": out.upper_bounds, "frozen": out._is_immutable}

    def props(self, env, inp, oc):
        if self.scaled:   # consistency is judged on the stored (optimizer-domain) bounds
            tlo = [inp["lo"][i] / inp["s"][i] for i in range(self.n)]
            thi = [inp["hi"][i] / inp["s"][i] for i in range(self.n)]
            bad = Or(*[tlo[i] > thi[i] for i in range(self.n)])
            if not oc.ok:
                if isinstance(oc.exc, ValueError):
                    return [("rejected_only_if_lower_exceeds_upper", bad)]
                return [("no_internal_exception:" + type(oc.exc).__name__, SB(False))]
            lo_, hi_ = np.asarray(vals(oc.value["lo"]), dtype=object), np.asarray(vals(oc.value["hi"]), dtype=object)
            return [("accepted_only_if_consistent", Not(bad)),
                    ("stored_bounds_are_ordered", all_of(lo_[i] <= hi_[i] for i in range(self.n))),
                    ("arrays_write_protected", SB(not oc.value["lo"].flags.writeable and not oc.value["hi"].flags.writeable))]
        bad = Or(*[inp["lo"][i] > inp["hi"][i] for i in range(self.n)])
        if not oc.ok:
            if isinstance(oc.exc, ValueError):
                return [("rejected_only_if_lower_exceeds_upper", bad)]
            return [("no_internal_exception:" + type(oc.exc).__name__, SB(False))]
        o = oc.value
        lo, hi = np.asarray(vals(o["lo"]), dtype=object), np.asarray(vals(o["hi"]), dtype=object)
        return [("accepted_only_if_consistent", Not(bad)),
                ("bounds_stored_unchanged", all_of(And(exact(lo[i], inp["lo"][i]), exact(hi[i], inp["hi"][i])) for i in range(self.n))),
                ("arrays_write_protected", SB(not o["lo"].flags.writeable and not o["hi"].flags.writeable)),
                ("object_frozen", SB(bool(o["frozen"])))]


class PerturbationCase(Case):
    """GradientConfig.fix_perturbations: canonical magnitudes, frozen arrays, idempotent."""

    family = "config/perturbations"

    def __init__(self, cid, ptypes, pmin_sym=True, scaled=False):
        self.id, self.ptypes = cid, tuple(ptypes)
        self.scaled = scaled   # a variable scaler in the validation context (the bounds given are optimizer-domain ones)
        self.N = len(ptypes)
        self.family = "config/perturbations/" + ("relative" if "relative" in ptypes else "absolute")
        self.cfg0 = ens.ensemble_config(N=self.N, R=1, P=2, lower=0.0, upper=1.0, ptypes=list(ptypes), magnitudes=0.1)

    def describe(self):
        return f"perturbation types {self.ptypes} variable_scaler={self.scaled}"

    def inputs(self, env):
        N = self.N
        lo = env.reals("lo", N, lo=-10, hi=10)
        hi = env.reals("hi", N, lo=-10, hi=10)
        for j in range(N):
            env.assume(hi[j] - lo[j] >= Fraction(1, 100))
        d = {"lo": lo, "hi": hi, "m": env.reals("m", N, lo=Fraction(1, 1000), hi=10)}
        if self.scaled:
            d["s"] = env.reals("s", N, lo=Fraction(1, 10), hi=10)
        return d

    def run(self, env, inp):
        from .common import clone_config, inject
        tr = ens.make_transforms(var_scales=env.arr(inp["s"])) if self.scaled else None
        cfg = clone_config(self.cfg0)
        inject(cfg.variables, lower_bounds=env.arr(inp["lo"], False), upper_bounds=env.arr(inp["hi"], False))
        # the raw (as configured) gradient section
        from ropt.enums import PerturbationType
        types = np.array([PerturbationType.ABSOLUTE if t == "absolute" else PerturbationType.RELATIVE for t in self.ptypes], dtype=np.ubyte)
        types.setflags(write=False)
        raw = cfg.gradient.model_copy(update={"perturbation_magnitudes": env.arr(inp["m"], False), "perturbation_types": types})
        once = raw.fix_perturbations(cfg.variables, tr)
        twice = once.fix_perturbations(cfg.variables, None)   # what re-validating a validated/dumped configuration does
        # the section object that was handed in is frozen: it is not rewritten, and it serves a second configuration
        # (other bounds) exactly like the first
        raw_after = {"m": raw.perturbation_magnitudes, "types": [int(t) for t in np.asarray(raw.perturbation_types).ravel()],
                     "types_before": [int(t) for t in types]}
        cfg2 = clone_config(self.cfg0)
        lo2 = np.array([x - 1 for x in inp["lo"]], dtype=object)
        hi2 = np.array([x + 2 for x in inp["hi"]], dtype=object)
        inject(cfg2.variables, lower_bounds=env.arr(lo2, False), upper_bounds=env.arr(hi2, False))
        other = raw.fix_perturbations(cfg2.variables, tr)
        return {"once": once, "twice": twice, "raw_after": raw_after, "other": other}

    def props(self, env, inp, oc):
        if not oc.ok:
            return [("no_internal_exception:" + type(oc.exc).__name__, SB(False))]
        once, twice = oc.value["once"], oc.value["twice"]
        m1 = np.asarray(vals(once.perturbation_magnitudes), dtype=object)
        m2 = np.asarray(vals(twice.perturbation_magnitudes), dtype=object)
        props = []
        for j in range(self.N):
            # absolute magnitudes are user-domain lengths (divided by the scale); relative ones are fractions of the
            # bound range, which is already an optimizer-domain length here
            sc = inp["s"][j] if self.scaled else SR(Fraction(1))
            exp = inp["m"][j] / sc if self.ptypes[j] == "absolute" else (inp["hi"][j] - inp["lo"][j]) * inp["m"][j]
            props.append((f"v{j}.canonical_magnitude", close(m1[j], exp)))
            props.append((f"v{j}.revalidation_keeps_magnitude", close(m2[j], m1[j])))
        ra = oc.value["raw_after"]
        mr = np.asarray(vals(ra["m"]), dtype=object)
        m3 = np.asarray(vals(oc.value["other"].perturbation_magnitudes), dtype=object)
        props.append(("given_section.types_not_rewritten", SB(ra["types"] == ra["types_before"])))
        for j in range(self.N):
            props.append((f"v{j}.given_section.magnitude_not_rewritten", SB(mr.shape == (self.N,)) if mr.shape != (self.N,) else exact(mr[j], inp["m"][j])))
            exp2 = inp["m"][j] / sc if self.ptypes[j] == "absolute" else (inp["hi"][j] - inp["lo"][j] + 3) * inp["m"][j]
            props.append((f"v{j}.second_configuration.canonical_magnitude", close(m3[j], exp2)))
        for nm in ("perturbation_magnitudes", "boundary_types", "perturbation_types"):
            props.append((f"{nm}.write_protected", SB(not getattr(once, nm).flags.writeable)))
            props.append((f"{nm}.full_length", SB(getattr(once, nm).shape == (self.N,))))
        return props

    def observe(self, env, inp, oc):
        return {"m": oc.value["once"].perturbation_magnitudes} if oc.ok else {}


CONFIGS = {
    "minimal": {"variables": {"initial_values": [0.0, 1.0]}},
    "full": {
        "variables": {"initial_values": [0.0, 1.0, 0.5], "lower_bounds": -1.0, "upper_bounds": [2.0, 2.0, 3.0], "mask": [True, False, True],
                      "types": 1},
        "objectives": {"weights": [1.0, 3.0], "function_estimators": [0, 1], "realization_filters": [0, -1]},
        "nonlinear_constraints": {"lower_bounds": [0.0, -np.inf], "upper_bounds": [np.inf, 1.0], "realization_filters": [-1, 0]},
        "linear_constraints": {"coefficients": [[1.0, 0.0, 2.0]], "lower_bounds": 0.0, "upper_bounds": 1.0},
        "realizations": {"weights": [1.0, 2.0, 1.0], "realization_min_success": 7},
        "optimizer": {"method": "slsqp", "max_iterations": 5, "options": {"ftol": 1e-3}, "tolerance": 1e-4, "speculative": True},
        "gradient": {"number_of_perturbations": 3, "perturbation_min_success": 9, "perturbation_magnitudes": [0.1, 0.2, 0.3],
                     "perturbation_types": [1, 2, 2], "boundary_types": 3, "samplers": [0, 1, 0], "seed": 3},
        "realization_filters": [{"method": "sort-objective", "options": {"sort": [0], "first": 0, "last": 1}}],
        "function_estimators": [{"method": "mean"}, {"method": "stddev"}],
        "samplers": [{"method": "norm"}, {"method": "uniform", "shared": True}],
    },
    "relative": {
        "variables": {"initial_values": [0.0, 1.0], "lower_bounds": [-1.0, 0.0], "upper_bounds": [3.0, 2.0]},
        "gradient": {"perturbation_types": [2, 2], "perturbation_magnitudes": 0.1},
    },
    "absolute": {
        "variables": {"initial_values": [0.0, 1.0], "lower_bounds": [-1.0, 0.0], "upper_bounds": [3.0, 2.0]},
        "gradient": {"perturbation_types": 1, "perturbation_magnitudes": [0.1, 0.4]},
        "optimizer": {"method": "scipy/l-bfgs-b"},
    },
    "scaled": {
        "variables": {"initial_values": [0.0, 1.0], "lower_bounds": [-1.0, 0.0], "upper_bounds": [3.0, 2.0]},
        "linear_constraints": {"coefficients": [[1.0, 1.0], [2.0, 0.0]], "lower_bounds": [0.0, -1.0], "upper_bounds": [1.0, np.inf]},
        "nonlinear_constraints": {"lower_bounds": 0.0, "upper_bounds": 1.0},
    },
}


def walk(obj, path="config"):
    """every pydantic model and every ndarray reachable from a validated configuration"""
    from pydantic import BaseModel
    if isinstance(obj, BaseModel):
        yield path, obj
        for name in type(obj).model_fields:
            yield from walk(getattr(obj, name), f"{path}.{name}")
    elif isinstance(obj, np.ndarray):
        yield path, obj
    elif isinstance(obj, (tuple, list)):
        for i, x in enumerate(obj):
            yield from walk(x, f"{path}[{i}]")
    elif isinstance(obj, dict):
        for k, x in obj.items():
            yield from walk(x, f"{path}[{k!r}]")


def equivalent(a, b):
    from pydantic import BaseModel
    if isinstance(a, BaseModel):
        return type(a) is type(b) and all(equivalent(getattr(a, n), getattr(b, n)) for n in type(a).model_fields)
    if isinstance(a, np.ndarray):
        return isinstance(b, np.ndarray) and a.shape == b.shape and a.dtype == b.dtype and bool(np.array_equal(a, b, equal_nan=True))
    if isinstance(a, (tuple, list)):
        return isinstance(b, (tuple, list)) and len(a) == len(b) and all(equivalent(x, y) for x, y in zip(a, b))
    if isinstance(a, dict):
        return isinstance(b, dict) and a.keys() == b.keys() and all(equivalent(a[k], b[k]) for k in a)
    return a == b


class AliasCase(Case):
    """Arrays handed to validation as read-only *views of writable memory*: the validated configuration must
    own its data (changing the caller's buffer afterwards must not change the configuration)."""

    family = "config/frozen/aliasing"

    def __init__(self, cid, kind):
        self.id, self.kind = cid, kind

    def describe(self):
        return f"input arrays are {self.kind}"

    def inputs(self, env):
        return {}

    def run(self, env, inp):
        from ropt.config.enopt import EnOptConfig

        base = {k: np.array(v, dtype=np.float64) for k, v in
                {"iv": [0.5, 1.5, 2.5], "ub": [4.0, 5.0, 6.0], "w": [1.0, 2.0, 1.0], "A": [[1.0, 0.0, 2.0]], "m": [0.1, 0.2, 0.3]}.items()}

        def view(a):
            if self.kind == "read-only view":
                v = a[...]
                v.setflags(write=False)
                return v
            if self.kind == "broadcast view":
                return np.broadcast_to(a, a.shape)
            return a
        cfg = EnOptConfig.model_validate({
            "variables": {"initial_values": view(base["iv"]), "upper_bounds": view(base["ub"])},
            "realizations": {"weights": view(base["w"])},
            "linear_constraints": {"coefficients": view(base["A"]), "lower_bounds": 0.0, "upper_bounds": 1.0},
            "gradient": {"perturbation_magnitudes": view(base["m"])},
        })
        before = {p: a.copy() for p, a in walk(cfg) if isinstance(a, np.ndarray)}
        for a in base.values():
            a += 100.0
        changed = [p for p, a in walk(cfg) if isinstance(a, np.ndarray) and not np.array_equal(a, before[p], equal_nan=True)]
        return changed

    def props(self, env, inp, oc):
        if not oc.ok:
            return [("no_internal_exception:" + type(oc.exc).__name__, SB(False))]
        return [("configuration_owns_its_arrays", SB(not oc.value))]


class FrozenCase(Case):
    """Real validated configurations: every reachable object and array rejects mutation; re-validation and the
    dump/validate round trip give an equivalent configuration.  (No solver variable: the structure is what is
    quantified here; counted as concrete companion cases.)"""

    family = "config/frozen"

    def __init__(self, cid, name, transforms=False):
        self.id, self.name, self.transforms = cid, name, transforms
        self.family = "config/frozen/" + name

    def describe(self):
        return f"validated configuration '{self.name}' transforms={self.transforms}"

    def inputs(self, env):
        return {}

    def run(self, env, inp):
        import json
        from ropt.config.enopt import EnOptConfig

        ctx = None
        if self.transforms:
            ctx = ens.make_transforms(var_scales=np.array([2.0, 4.0]), var_offsets=np.array([1.0, 0.5]), con_scales=np.array([2.0]))
        cfg = EnOptConfig.model_validate(CONFIGS[self.name], context=ctx)
        report = {"mutable_models": [], "writable_arrays": [], "setattr_accepted": [], "inplace_accepted": []}
        for path, obj in walk(cfg):
            if isinstance(obj, np.ndarray):
                if obj.flags.writeable:
                    report["writable_arrays"].append(path)
                if obj.size:
                    try:
                        obj.reshape(-1)[0] = obj.reshape(-1)[0]
                        report["inplace_accepted"].append(path)
                    except ValueError:
                        pass
            else:
                frozen_cfg = bool(getattr(type(obj), "model_config", {}).get("frozen"))
                if not frozen_cfg and not getattr(obj, "_is_immutable", False):
                    report["mutable_models"].append(path)
                fld = next(iter(type(obj).model_fields), None)
                if fld is not None:
                    try:
                        setattr(obj, fld, getattr(obj, fld))
                        report["setattr_accepted"].append(path)
                    except (AttributeError, TypeError, ValueError):  # pydantic frozen models raise ValidationError (a ValueError)
                        pass
        report["same_object_passes"] = EnOptConfig.model_validate(cfg) is cfg
        dumped = cfg.model_dump(round_trip=True)
        again = EnOptConfig.model_validate(dumped)
        report["dump_roundtrip_equivalent"] = equivalent(cfg, again)
        report["diff"] = [p for (p, a), (_, b) in zip(walk(cfg), walk(again)) if isinstance(a, np.ndarray) and not equivalent(a, b)]
        return report

    def props(self, env, inp, oc):
        if not oc.ok:
            return [("no_internal_exception:" + type(oc.exc).__name__, SB(False))]
        r = oc.value
        return [("every_config_object_is_frozen", SB(not r["mutable_models"] and not r["setattr_accepted"])),
                ("every_stored_array_is_write_protected", SB(not r["writable_arrays"] and not r["inplace_accepted"])),
                ("validated_object_passes_unchanged", SB(r["same_object_passes"])),
                ("dump_validate_roundtrip_equivalent", SB(r["dump_roundtrip_equivalent"]))]


class LinearSectionCase(Case):
    """A validated LinearConstraintsConfig object handed to two validations with a variable scaler: the object is
    frozen (not rewritten), so both validations see the user's rows and give the same transformed rows."""

    family = "config/linear-section"

    def __init__(self, cid):
        self.id = cid
        self.cfg0 = make_config({"variables": {"initial_values": [0.0, 0.0]},
                                 "linear_constraints": {"coefficients": [[1.0, 1.0]], "lower_bounds": [0.0], "upper_bounds": [1.0]}})

    def describe(self):
        return "LinearConstraintsConfig.apply_transformation twice on one object, symbolic rows, bounds, scales and offsets"

    def inputs(self, env):
        A = env.reals("A", (1, 2), lo=-5, hi=5)
        env.assume(Or(Not(A[0, 0] == 0), Not(A[0, 1] == 0)))
        return {"A": A, "lo": env.reals("lo", 1, lo=-10, hi=0), "hi": env.reals("hi", 1, lo=0, hi=10),
                "s": env.reals("s", 2, lo=Fraction(1, 10), hi=10), "o": env.reals("o", 2, lo=-5, hi=5)}

    def run(self, env, inp):
        from ropt.config.enopt import LinearConstraintsConfig
        tr = ens.make_transforms(var_scales=env.arr(inp["s"]), var_offsets=env.arr(inp["o"]))
        lc = LinearConstraintsConfig.model_construct(coefficients=env.arr(inp["A"], False), lower_bounds=env.arr(inp["lo"], False),
                                                     upper_bounds=env.arr(inp["hi"], False))
        lc._immutable()
        one = lc.apply_transformation(self.cfg0.variables, tr)
        after = (lc.coefficients, lc.lower_bounds, lc.upper_bounds)
        two = lc.apply_transformation(self.cfg0.variables, tr)
        return {"one": one, "two": two, "after": after, "same_object_returned": one is lc}

    def props(self, env, inp, oc):
        if not oc.ok:
            return [("no_internal_exception:" + type(oc.exc).__name__, SB(False))]
        o = oc.value
        A1, A2 = (np.asarray(vals(x.coefficients), dtype=object) for x in (o["one"], o["two"]))
        Aa = np.asarray(vals(o["after"][0]), dtype=object)
        props = [("given_object_not_rewritten", all_of(exact(Aa[0, j], inp["A"][0, j]) for j in range(2))),
                 ("given_bounds_not_rewritten", And(exact(np.asarray(vals(o["after"][1]), dtype=object)[0], inp["lo"][0]),
                                                    exact(np.asarray(vals(o["after"][2]), dtype=object)[0], inp["hi"][0]))),
                 ("second_validation_gives_the_same_rows", all_of(close(A2[0, j], A1[0, j]) for j in range(2))),
                 ("transformed_arrays_write_protected", SB(not o["one"].coefficients.flags.writeable and not o["one"].lower_bounds.flags.writeable))]
        return props

    def observe(self, env, inp, oc):
        return {}


class IndexArraysCase(Case):
    """Index arrays (which estimator / filter / sampler serves which function or variable) follow the same rule as
    every other per-item array: size one is broadcast, full length is kept, anything else is rejected.  (No solver
    variable: field x size are enumerated; concrete companion cases.)"""

    family = "config/index-arrays"
    FIELDS = (("objectives", "function_estimators", 3), ("objectives", "realization_filters", 3),
              ("nonlinear_constraints", "function_estimators", 2), ("nonlinear_constraints", "realization_filters", 2),
              ("gradient", "samplers", 4))

    def __init__(self, cid, field, size):
        self.id, self.field, self.size = cid, field, size

    def describe(self):
        return f"{self.field[0]}.{self.field[1]} given with {self.size} entries for {self.field[2]} items"

    def inputs(self, env):
        return {}

    def run(self, env, inp):
        from ropt.config.enopt import EnOptConfig
        d = {"variables": {"initial_values": [0.0] * 4}, "objectives": {"weights": [1.0, 2.0, 1.0]},
             "nonlinear_constraints": {"lower_bounds": [0.0, 0.0], "upper_bounds": [1.0, 1.0]},
             "realizations": {"weights": [1.0, 1.0]}, "gradient": {},
             "function_estimators": [{"method": "mean"}, {"method": "stddev"}],
             "realization_filters": [{"method": "sort-objective", "options": {"sort": [0], "first": 0, "last": 0}},
                                     {"method": "sort-objective", "options": {"sort": [0], "first": 0, "last": 1}}],
             "samplers": [{"method": "norm"}, {"method": "uniform"}]}
        sec, name, n = self.field
        d[sec][name] = [1] * self.size
        cfg = EnOptConfig.model_validate(d)
        arr = getattr(getattr(cfg, sec), name)
        return {"stored": [int(x) for x in np.asarray(arr).ravel()], "writeable": bool(arr.flags.writeable)}

    def props(self, env, inp, oc):
        n = self.field[2]
        if not oc.ok:
            if isinstance(oc.exc, ValueError):
                return [("rejected_only_if_not_one_and_not_full_length", SB(self.size not in (1, n)))]
            return [("no_internal_exception:" + type(oc.exc).__name__, SB(False))]
        return [("accepted_only_if_one_or_full_length", SB(self.size in (1, n))),
                ("stored_with_one_entry_per_item", SB(oc.value["stored"] == [1] * n)),
                ("write_protected", SB(not oc.value["writeable"]))]

    def observe(self, env, inp, oc):
        return {}


def build_cases(tier):
    cases = []
    k = 0

    def add(cls, *a, **kw):
        nonlocal k
        k += 1
        cases.append(cls(f"c18-{k:03d}", *a, **kw))

    for n in (1, 2, 3) if tier == "quick" else (1, 2, 3, 4):
        add(NormalizeCase, n, "realizations")
        add(NormalizeCase, n, "objectives")
    for which in ("variables", "nonlinear", "linear"):
        add(BoundsCase, which, 2 if tier == "quick" else 3)
    add(BoundsCase, "variables", 2, scaled=True)
    for kind in ("plain arrays", "read-only view", "broadcast view"):
        add(AliasCase, kind)
    for pt in itertools.product(("absolute", "relative"), repeat=2):
        add(PerturbationCase, pt)
    add(PerturbationCase, ("relative", "absolute"), scaled=True)
    add(PerturbationCase, ("relative", "relative"), scaled=True)
    add(LinearSectionCase)
    if tier == "thorough":
        for pt in itertools.product(("absolute", "relative"), repeat=3):
            add(PerturbationCase, pt)
    for name in CONFIGS:
        add(FrozenCase, name)
    add(FrozenCase, "scaled", transforms=True)
    for field in IndexArraysCase.FIELDS:
        for size in (1, field[2], field[2] - 1 if field[2] > 2 else field[2] + 1):
            add(IndexArraysCase, field, size)
    return cases


META = dict(
    bounds={"quick": "weights of length <=3 in [0,100], symbolic thresholds in [0,n+2]; 2 bounds per section in [-10,10]; perturbation settings for 2 variables with every absolute/relative mix; 6 real validated configurations traversed completely",
            "thorough": "weights up to length 5; 3 variables",
            "outside": "pydantic-core's field coercion; configuration fields that no validator touches are only seen on the real objects"},
    stubs=["pydantic plumbing: the models' own @model_validator functions are called directly on model_construct'ed objects holding symbolic arrays; the frozen/round-trip cases run real model_validate/model_dump"],
    assumptions=["re-validation of a dumped configuration happens without a transforms context (the dumped values are already in the optimizer domain)"],
)
