"""C13 - constraint differences and violations are reported exactly for all bound kinds.

Encoded: ConstraintInfo.create / __post_init__ / transform_from_optimizer and plan._utils._violates_constraint;
EnsembleEvaluator.calculate (functions, functions+gradients) for the info it attaches to its results.
Symbolic: variables, finite bound values, linear coefficients and bounds, non-linear values and bounds, tolerance.
Enumerated: the finite/infinite pattern of every bound.
"""
from __future__ import annotations

import itertools
from fractions import Fraction

import numpy as np

from .common import And, Case, Implies, Not, Or, SB, SR, all_of, clone_config, close, exact, inject, isnan, ite, make_config, ssum, vals

INF = SR(Fraction(0), False, 1)
BIG = 1000
ZERO = SR(Fraction(0))
KINDS = ("both", "lower", "upper", "none", "equal")


def mk_bounds(env, name, kinds):
    lo, hi = [], []
    for i, k in enumerate(kinds):
        if k == "both":
            a, b = env.real(f"{name}_lo_{i}", -BIG, BIG), env.real(f"{name}_hi_{i}", -BIG, BIG)
            env.assume(a < b)
        elif k == "lower":
            a, b = env.real(f"{name}_lo_{i}", -BIG, BIG), INF
        elif k == "upper":
            a, b = -INF, env.real(f"{name}_hi_{i}", -BIG, BIG)
        elif k == "equal":
            a = env.real(f"{name}_lo_{i}", -BIG, BIG)
            b = a
        else:
            a, b = -INF, INF
        lo.append(a), hi.append(b)
    return lo, hi


def spec_violation(v, lo, hi):
    """max(lb - v, v - ub, 0)"""
    a = lo - v  # -inf when unbounded
    b = v - hi
    r = ZERO
    for t in (a, b):
        if t.inf < 0:
            continue
        r = ite(t > r, t, r)
    return r


class InfoCase(Case):
    family = "constraint-info"

    def __init__(self, cid, *, vkinds, lkinds=(), nkinds=(), scaler=False, tol="sym", prior=False):
        self.id = cid
        self.prior = prior
        self.vkinds, self.lkinds, self.nkinds, self.scaler, self.tol = vkinds, lkinds, nkinds, scaler, tol
        N = len(vkinds)
        mixed = any(k in ("upper", "none") for k in vkinds) and any(k in ("lower", "none") for k in vkinds)
        self.family = "constraint-info/mixed-infinite-bounds" if mixed else "constraint-info"
        d = {"variables": {"initial_values": [0.0] * N}}
        if lkinds:
            d["linear_constraints"] = {"coefficients": [[1.0] * N] * len(lkinds), "lower_bounds": [0.0] * len(lkinds),
                                       "upper_bounds": [1.0] * len(lkinds)}
        if nkinds:
            d["nonlinear_constraints"] = {"lower_bounds": [0.0] * len(nkinds), "upper_bounds": [1.0] * len(nkinds)}
        self.cfg0 = make_config(d)

    def describe(self):
        return f"variables={self.vkinds} linear={self.lkinds} nonlinear={self.nkinds} scaler={self.scaler} after_another_result={self.prior}"

    def inputs(self, env):
        N = len(self.vkinds)
        x = [env.real(f"x_{j}", -BIG, BIG) for j in range(N)]
        vlo, vhi = mk_bounds(env, "vb", self.vkinds)
        llo, lhi = mk_bounds(env, "lb", self.lkinds)
        nlo, nhi = mk_bounds(env, "nb", self.nkinds)
        coef = env.reals("a", (len(self.lkinds), N), lo=-10, hi=10) if self.lkinds else None
        cons = [env.real(f"g_{i}", -BIG, BIG) for i in range(len(self.nkinds))]
        tol = env.real("tol", 0, 10)
        scales = None
        if self.scaler:
            scales = [env.real(f"s_{j}", Fraction(1, 100), 100) for j in range(N)]
        return dict(x=x, vlo=vlo, vhi=vhi, llo=llo, lhi=lhi, nlo=nlo, nhi=nhi, coef=coef, cons=cons, tol=tol, scales=scales)

    def run(self, env, inp):
        from ropt.plugins.plan._utils import _violates_constraint
        from ropt.results import ConstraintInfo, FunctionEvaluations, FunctionResults, Functions, Realizations

        obj = lambda seq: np.array(list(seq), dtype=object)  # noqa: E731
        cfg = clone_config(self.cfg0)
        inject(cfg.variables, lower_bounds=env.arr(obj(inp["vlo"]), False), upper_bounds=env.arr(obj(inp["vhi"]), False))
        if self.lkinds:
            inject(cfg.linear_constraints, coefficients=env.arr(inp["coef"], False),
                   lower_bounds=env.arr(obj(inp["llo"]), False), upper_bounds=env.arr(obj(inp["lhi"]), False))
        if self.nkinds:
            inject(cfg.nonlinear_constraints, lower_bounds=env.arr(obj(inp["nlo"]), False), upper_bounds=env.arr(obj(inp["nhi"]), False))
        x = env.arr(obj(inp["x"]))
        cons = env.arr(obj(inp["cons"])) if self.nkinds else None
        if self.prior:
            # an unrelated result was built just before (another optimization in this process, with every kind of
            # constraint): nothing of it may show up in this one
            other = make_config({"variables": {"initial_values": [0.0] * len(self.vkinds), "lower_bounds": -1.0, "upper_bounds": 1.0},
                                 "linear_constraints": {"coefficients": [[1.0] * len(self.vkinds)], "lower_bounds": [0.0], "upper_bounds": [1.0]},
                                 "nonlinear_constraints": {"lower_bounds": [0.0], "upper_bounds": [1.0]}})
            ConstraintInfo.create(other, env.const(np.full(len(self.vkinds), 3.0)), env.const(np.array([7.0])))
        info = ConstraintInfo.create(cfg, x, cons)
        out = {"info": info}
        fr = FunctionResults(
            batch_id=None, metadata={},
            evaluations=FunctionEvaluations.create(variables=x, objectives=env.const(np.zeros((1, 1)))),
            realizations=Realizations(failed_realizations=np.array([False])),
            functions=Functions.create(weighted_objective=env.const(np.array(0.0)), objectives=env.const(np.zeros(1)), constraints=cons),
            constraint_info=info,
        )
        out["violates"] = _violates_constraint(fr, env.num(inp["tol"]))
        out["violates_none"] = _violates_constraint(fr, None)
        if self.scaler and info is not None:
            from ropt.transforms import OptModelTransforms, VariableScaler
            vs = VariableScaler(env.arr(obj(inp["scales"])), None)
            out["back"] = info.transform_from_optimizer(OptModelTransforms(variables=vs))
        return out

    def props(self, env, inp, oc):
        if not oc.ok:
            return [("no_internal_exception:" + type(oc.exc).__name__, SB(False))]
        N = len(self.vkinds)
        x = inp["x"]
        info = oc.value["info"]
        props = []
        any_finite = any(k != "none" for k in self.vkinds) or self.lkinds or self.nkinds
        if info is None:
            props.append(("info_present_when_any_bound_exists", SB(not any_finite)))
            props.append(("feasible_iff_all_within_tolerance", SB(not bool(oc.value["violates"])) if not any_finite else SB(True)))
            return props
        viol_all = []

        def group(tag, values, lo, hi, dl, du, vi, need):
            if dl is None or du is None or vi is None:
                props.append((f"{tag}.reported", SB(not need)))
                if need:
                    for i, v in enumerate(values):
                        viol_all.append(spec_violation(v, lo[i], hi[i]))
                return
            dl, du, vi = vals(dl), vals(du), vals(vi)
            for i, v in enumerate(values):
                if lo[i].inf == 0:
                    props.append((f"{tag}{i}.lower_difference", close(dl[i], v - lo[i])))
                if hi[i].inf == 0:
                    props.append((f"{tag}{i}.upper_difference", close(du[i], v - hi[i])))
                sv = spec_violation(v, lo[i], hi[i])
                props.append((f"{tag}{i}.violation", close(vi[i], sv)))
                outside = Or(v < lo[i], v > hi[i])
                props.append((f"{tag}{i}.outside_bound_has_positive_violation", Implies(outside, vi[i] > 0)))
                viol_all.append(sv)

        group("bound", x, inp["vlo"], inp["vhi"], info.bound_lower, info.bound_upper, info.bound_violation,
              any(k != "none" for k in self.vkinds))
        if self.lkinds:
            lv = [ssum([inp["coef"][i, j] * x[j] for j in range(N)]) for i in range(len(self.lkinds))]
            group("linear", lv, inp["llo"], inp["lhi"], info.linear_lower, info.linear_upper, info.linear_violation, True)
        if self.nkinds:
            group("nonlinear", inp["cons"], inp["nlo"], inp["nhi"], info.nonlinear_lower, info.nonlinear_upper,
                  info.nonlinear_violation, True)
        if not self.lkinds:
            props.append(("linear.absent_when_not_configured", SB(info.linear_lower is None and info.linear_upper is None and info.linear_violation is None)))
        if not self.nkinds:
            props.append(("nonlinear.absent_when_not_configured", SB(info.nonlinear_lower is None and info.nonlinear_upper is None and info.nonlinear_violation is None)))
        tol = inp["tol"]
        infeasible = Or(*[v > tol for v in viol_all]) if viol_all else SB(False)
        props.append(("feasible_iff_all_within_tolerance", SB(oc.value["violates"]) == infeasible
                      if isinstance(oc.value["violates"], bool) else oc.value["violates"] == infeasible))
        props.append(("no_tolerance_means_feasible", SB(not bool(oc.value["violates_none"]))))
        if self.scaler and "back" in oc.value:
            back, s = oc.value["back"], inp["scales"]
            if back.bound_lower is not None:
                bl, bu, bv = vals(back.bound_lower), vals(back.bound_upper), vals(back.bound_violation)
                for j in range(N):
                    # optimizer-domain diffs d correspond to user-domain diffs d*s
                    if inp["vlo"][j].inf == 0:
                        props.append((f"bound{j}.back_transformed_lower", close(bl[j], (x[j] - inp["vlo"][j]) * s[j])))
                    if inp["vhi"][j].inf == 0:
                        props.append((f"bound{j}.back_transformed_upper", close(bu[j], (x[j] - inp["vhi"][j]) * s[j])))
                    props.append((f"bound{j}.back_transformed_violation",
                                  close(bv[j], spec_violation(x[j], inp["vlo"][j], inp["vhi"][j]) * s[j])))
        props.append(("canary:violation_ignores_lower_side",
                      all_of(close(vals(info.bound_violation)[j], spec_violation(x[j], -INF, inp["vhi"][j])) for j in range(N))
                      if info.bound_violation is not None else SB(True)))
        return props

    def observe(self, env, inp, oc):
        if not oc.ok or oc.value["info"] is None:
            return {}
        i = oc.value["info"]
        return {k: getattr(i, k) for k in ("bound_violation", "linear_violation", "nonlinear_violation") if getattr(i, k) is not None}


class EvaluatorInfoCase(Case):
    """The constraint info the ensemble evaluator attaches to its function results (functions only, and
    functions + gradients in one request): differences of the *ensemble* constraint values, one entry per constraint."""

    family = "constraint-info/evaluator"

    def __init__(self, cid, *, R=2, nkinds=("both",), mode="both"):
        from . import ens
        self.id, self.R, self.nkinds, self.mode = cid, R, tuple(nkinds), mode
        self.N, self.C = 2, len(nkinds)
        self.cfg0 = ens.ensemble_config(N=2, R=R, P=1, C=self.C, lower=-1.0, upper=1.0, x0=[0.25, -0.5])
        self.design = np.array([[[1.0, 0.5]]] * R)

    def describe(self):
        return f"EnsembleEvaluator.calculate mode={self.mode} R={self.R} nonlinear={self.nkinds}"

    def inputs(self, env):
        R, C = self.R, self.C
        w = env.reals("w", R, lo=0, hi=1)
        env.assume(ssum(list(w)) == 1)
        for r in range(R):
            env.assume(w[r] > 0)
        nlo, nhi = mk_bounds(env, "nb", self.nkinds)
        g = env.reals("g", (R, C), lo=-BIG, hi=BIG)
        f = env.reals("f", (R, 1), lo=-BIG, hi=BIG)
        return dict(w=w, nlo=nlo, nhi=nhi, g=g, f=f)

    def run(self, env, inp):
        from ropt.ensemble_evaluator import EnsembleEvaluator
        from ropt.evaluator import EvaluatorResult
        from . import ens

        obj = lambda seq: np.array(list(seq), dtype=object)  # noqa: E731
        cfg = clone_config(self.cfg0)
        inject(cfg.realizations, weights=env.arr(inp["w"], writeable=False))
        inject(cfg.nonlinear_constraints, lower_bounds=env.arr(obj(inp["nlo"]), False), upper_bounds=env.arr(obj(inp["nhi"]), False))
        pm = ens.stub_manager()
        ens.set_samples(lambda s_: env.const(self.design))

        def evaluator(variables, context):
            n = variables.shape[0]
            fo = np.empty((n, 1), dtype=object)
            go = np.empty((n, self.C), dtype=object)
            for i in range(n):
                r = int(context.realizations[i])
                pert = context.perturbations is not None and int(context.perturbations[i]) >= 0
                fo[i, 0] = inp["f"][r, 0] + (1 if pert else 0)
                for c in range(self.C):
                    go[i, c] = inp["g"][r, c] + (1 if pert else 0)
            return EvaluatorResult(objectives=env.arr(fo), constraints=env.arr(go))

        ee = EnsembleEvaluator(cfg, None, evaluator, pm)
        x = env.const(np.array([0.25, -0.5]))
        res = ee.calculate(x, compute_functions=True, compute_gradients=self.mode == "both")
        return {"fr": res[0]}

    def props(self, env, inp, oc):
        if not oc.ok:
            return [("no_internal_exception:" + type(oc.exc).__name__, SB(False))]
        fr = oc.value["fr"]
        info = fr.constraint_info
        R, C = self.R, self.C
        w = list(inp["w"])
        props = [("info_present", SB(info is not None))]
        if info is None:
            return props
        for nm in ("nonlinear_lower", "nonlinear_upper", "nonlinear_violation"):
            a = getattr(info, nm)
            props.append((f"{nm}.one_entry_per_constraint", SB(a is not None and np.shape(vals(a)) == (C,))))
            if a is None or np.shape(vals(a)) != (C,):
                return props
        dl, du, vi = vals(info.nonlinear_lower), vals(info.nonlinear_upper), vals(info.nonlinear_violation)
        for c in range(C):
            v = ssum([w[r] * inp["g"][r, c] for r in range(R)])
            lo, hi = inp["nlo"][c], inp["nhi"][c]
            if lo.inf == 0:
                props.append((f"nonlinear{c}.lower_difference_of_ensemble_value", close(dl[c], v - lo)))
            if hi.inf == 0:
                props.append((f"nonlinear{c}.upper_difference_of_ensemble_value", close(du[c], v - hi)))
            props.append((f"nonlinear{c}.violation_of_ensemble_value", close(vi[c], spec_violation(v, lo, hi))))
        return props

    def observe(self, env, inp, oc):
        return {}


def build_cases(tier):
    cases = []
    k = 0

    def add(**kw):
        nonlocal k
        k += 1
        cases.append(InfoCase(f"c13-{k:03d}", **kw))

    vk = ("both", "lower", "upper", "none")
    for combo in itertools.product(vk, repeat=2):
        add(vkinds=combo)
    for combo in itertools.product(KINDS, repeat=2):
        add(vkinds=("both",), lkinds=combo, nkinds=combo[::-1])
    add(vkinds=("both", "both"), scaler=True)
    add(vkinds=("lower", "both"), scaler=True)
    add(vkinds=("none",))
    add(vkinds=("both", "lower"), prior=True)
    add(vkinds=("upper",), lkinds=("both",), prior=True)
    # back-transformation of linear / bound differences through the real configuration path (differential harness of C11)
    from .c11 import TransformCase
    for kw in (dict(N=2, L=1, C=0, lkinds=("both",), var_bounds="none", obj_scaler=False),
               dict(N=2, L=1, C=1, lkinds=("upper",), nkinds=("lower",), fail=True),
               dict(N=2, L=1, C=0, lkinds=("both",), scale_form="none", obj_scaler=False),
               dict(N=2, L=0, C=1, nkinds=("both",), scale_form="absent", obj_scaler=False),
               dict(N=2, L=1, C=1, lkinds=("both",), nkinds=("both",)),      # variable and constraint transforms together
               dict(N=1, L=0, C=1, nkinds=("upper",), ptypes=("absolute",), boundary=("none",))):
        k += 1
        cases.append(TransformCase(f"c13-{k:03d}", **kw))
    for mode in ("functions", "both"):
        k += 1
        cases.append(EvaluatorInfoCase(f"c13-{k:03d}", R=2, nkinds=("both", "upper"), mode=mode))
    k += 1
    cases.append(EvaluatorInfoCase(f"c13-{k:03d}", R=3, nkinds=("lower",), mode="both"))
    if tier == "thorough":
        for combo in itertools.product(vk, repeat=3):
            add(vkinds=combo)
        for combo in itertools.product(KINDS, repeat=3):
            add(vkinds=("upper", "both"), lkinds=combo, nkinds=combo[::-1])
    return cases


META = dict(
    bounds={"quick": "2 variables with every finite/infinite bound pattern (16); 2 linear + 2 non-linear constraints with every pair of kinds (25); values in [-1000,1000], coefficients in [-10,10]",
            "thorough": "3 variables (64 patterns); 3+3 constraints (125 kind triples)",
            "outside": "larger sizes; rounding (1e-6 relative)"},
    stubs=[],
    assumptions=["finite lower < upper for two-sided bounds", "differences are claimed against finite bounds only (value - inf is not a number a user reads)"],
)
