#!/bin/sh
# Build /verif/.venv offline: a venv of /venv's interpreter that sees /venv's
# site-packages (numpy, scipy, pydantic, ropt's deps) plus z3-solver and cvc5
# from the offline wheelhouse.  Idempotent; safe to call concurrently.
set -e
V=/verif/.venv
[ -n "$VERIF_VENV" ] && V="$VERIF_VENV"
if [ -x "$V/bin/python" ] && "$V/bin/python" -c "import z3, cvc5, numpy" 2>/dev/null; then
  exit 0
fi
mkdir -p "$(dirname "$V")"
exec 9>"$(dirname "$V")/.venv.lock"
flock 9
if [ -x "$V/bin/python" ] && "$V/bin/python" -c "import z3, cvc5, numpy" 2>/dev/null; then
  exit 0
fi
rm -rf "$V"
/venv/bin/python -m venv "$V"
SP=$("$V/bin/python" -c "import sysconfig; print(sysconfig.get_paths()['purelib'])")
printf "import site; site.addsitedir('/venv/lib/python3.12/site-packages')\n" > "$SP/verif_overlay.pth"
PIP_NO_INDEX=1 "$V/bin/python" -m pip install -q --no-index --find-links /opt/veriftools/wheels z3-solver cvc5 jsonschema >/dev/null
"$V/bin/python" -c "import z3, cvc5, numpy, scipy, pydantic; print('verif venv ready', z3.get_version_string())"
