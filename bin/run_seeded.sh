#!/bin/sh
# Re-run every seeded change against the check of its property (quick tier) and record the verdict in meta.json.
# A meta.json may name a "cross_check": the property whose check is responsible for the changed behaviour.
export VERIF_EVIDENCE_DIR=/tmp/verif_evidence_scratch   # evidence/ describes runs on the unchanged tree only
cd /verif
for d in ${@:-seeded/*/}; do
  d=${d%/}
  id=$(basename $d); pid=${id%%-*}
  git -C /repo diff --quiet || { echo "repo dirty"; exit 2; }
  git -C /repo apply /verif/$d/patch.diff || { echo "$id: patch does not apply"; continue; }
  ./check $pid --tier quick > /tmp/seedrun_$id.log 2>&1; rc=$?
  by=$pid
  cross=$(python3 -c "import json,sys; print(json.load(open('$d/meta.json')).get('cross_check',''))")
  if [ $rc -ne 1 ] && [ -n "$cross" ]; then
    ./check $cross --tier quick > /tmp/seedrun_$id.log 2>&1; rc=$?; by=$cross
  fi
  git -C /repo checkout -q -- .
  keys=$(grep -A1 '^VIOLATION' /tmp/seedrun_$id.log | grep -v '^VIOLATION\|^--' | sed 's/: case.*//; s/^ *//' | sort -u | head -6 | tr '\n' ';')
  echo "$id exit=$rc by=$by $keys"
  python3 - "$d/meta.json" "$rc" "$keys" "$by" <<'PY'
import json,sys
p,rc,keys,by=sys.argv[1],int(sys.argv[2]),sys.argv[3],sys.argv[4]
m=json.load(open(p))
m["current_run_of_check"]={"exit":rc,"detected":rc==1,"by_check":by,"violated_obligations":[k for k in keys.split(';') if k]}
json.dump(m,open(p,'w'),indent=1)
PY
done
