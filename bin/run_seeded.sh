#!/bin/sh
# Re-run every seeded change against the check of its property (quick tier) and record the verdict in meta.json.
cd /verif
for d in seeded/*/; do
  id=$(basename $d); pid=${id%%-*}
  git -C /repo diff --quiet || { echo "repo dirty"; exit 2; }
  git -C /repo apply /verif/$d/patch.diff || { echo "$id: patch does not apply"; continue; }
  ./check $pid --tier quick > /tmp/seedrun_$id.log 2>&1; rc=$?
  git -C /repo checkout -q -- .
  keys=$(grep -A1 '^VIOLATION' /tmp/seedrun_$id.log | grep -v '^VIOLATION\|^--' | sed 's/: case.*//; s/^ *//' | sort -u | head -6 | tr '\n' ';')
  echo "$id exit=$rc $keys"
  python3 - "$d/meta.json" "$rc" "$keys" <<'PY'
import json,sys
p,rc,keys=sys.argv[1],int(sys.argv[2]),sys.argv[3]
m=json.load(open(p))
m["current_run_of_check"]={"exit":rc,"detected":rc==1,"violated_obligations":[k for k in keys.split(';') if k]}
json.dump(m,open(p,'w'),indent=1)
PY
done
