"""Developer tool: run one case and print per-path / per-obligation verdicts.
usage: debug_case.py <prop> <case-id> [substring] [--tier thorough] [--tb]"""
import sys, time, traceback, warnings
warnings.filterwarnings("ignore")
import importlib
import numpy as np
np.seterr(all="ignore")
import z3
from symnp import *  # noqa
from symnp import solve
from symnp.core import zb, b_not
from symnp.harness import Env, Outcome, run_concrete, model_values
from symnp.proxy import instrument

args = [a for a in sys.argv[1:] if not a.startswith("--")]
tier = "thorough" if "--thorough" in sys.argv else "quick"
mod = importlib.import_module(f"checks.{args[0].lower()}")
instrument("ropt")
cases = {c.id: c for c in mod.build_cases(tier)}
case = cases[args[1]]
sub = args[2] if len(args) > 2 else ""
print(case.describe())
env = Env("sym"); inp = case.inputs(env)
t = time.time()
paths = explore(lambda: case.run(env, inp), base=env.assumptions, max_paths=case.max_paths)
print("paths", len(paths), round(time.time() - t, 2))
st = solve.SolveStats()
for i, p in enumerate(paths):
    oc = Outcome(p.kind, p.value)
    if p.kind == "exc" and "--tb" in sys.argv:
        traceback.print_exception(p.value)
    props = case.props(env, inp, oc)
    ctxf = env.assumptions + p.pc + p.axioms
    for name, pr in props:
        if sub not in name:
            continue
        tt = tob(pr).t
        if tt is True:
            continue
        t = time.time()
        r, m = solve.discharge(ctxf, zb(b_not(tt)), 10000, st)
        dt = time.time() - t
        if r != "unsat" or dt > 2 or "--all" in sys.argv:
            print(f"path {i} [{oc.describe()}] {name}: {r} {dt:.2f}s")
            if r == "sat" and "--model" in sys.argv:
                v = model_values(m, env.decl)
                print("   ", {k: (float(x) if not isinstance(x, bool) else x) for k, x in v.items()})
                cenv, cinp, coc, cprops = run_concrete(case, v)
                print("    concrete:", coc.describe(), [n for n, q in cprops if tob(q).t is False])
print("queries", st.queries, "time", round(st.time, 2), "unknown", st.unknown, "split", st.split_rescued)
