"""Regenerate MANIFEST.json from the table below (keeps it valid at all times)."""
import json, os

V = os.path.dirname(os.path.dirname(os.path.abspath(__file__)))
LEVEL_TEXT = ("Bounded symbolic execution of the real ropt functions (imported from /repo/src on every run) on "
              "z3-backed NumPy arrays; each property is a solver obligation per explored path, `unsat` = holds for "
              "every value inside the stated bounds, `sat` = counterexample replayed on the unpatched code with real "
              "NumPy before it is reported. Not a proof: nothing is claimed outside the bounds in the evidence file.")
NOTE = ("Trusted: z3 5.1 (sampled/complete cross-check by cvc5 1.4), the symnp engine (validated per path by replaying "
        "a model of the path condition through the real code), the stubs listed in the evidence file. Real arithmetic "
        "stands in for IEEE doubles except where stated (tolerance 1e-6 relative).")

CHECKS = {
    # id: (design_ref, technique, extra level text)
    "C02": ("3/C02", "symbolic execution of the gradient pipeline with concrete injected designs (NumPy's SVD on concrete deltas) and symbolic slopes/weights/failures; SVD kernel separately with symbolic singular values; NRA obligations decided by z3", ""),
    "C03": ("3/C03", "symbolic execution of the evaluator with symbolic failure flags and symbolic thresholds; metamorphic self-composition (full vs reduced ensemble) proved equal by z3; scripted optimizer through EnsembleOptimizer", ""),
    "C04": ("3/C04", "symbolic execution of the CVaR filter: real-mode NRA obligations over values/flags/percentile plus a Float64 (z3 FP theory) run of int(p*n) for every double p", ""),
    "C05": ("3/C05", "symbolic execution of the sort filter (argsort forks over orders); tie-robust rank-window obligations decided by z3", ""),
    "C13": ("3/C13", "symbolic execution of ConstraintInfo.create/__post_init__/transform_from_optimizer and the feasibility test; linear/bilinear obligations decided by z3", ""),
    "C12": ("3/C12", "symbolic execution of the tracker handler on real result/event objects with symbolic objectives, violations and tolerance; bounded histories plus one step from an arbitrary valid state, and BasicOptimizer end to end with a scripted algorithm (symbolic objective, NaN flag and constraint value per evaluation); LRA obligations decided by z3", ""),
    "C14": ("3/C14", "symbolic execution of real plans (default optimizer/evaluator steps, scripted optimizer) with symbolic failure flags and a symbolic max_functions; exit code and stop point compared with a reference state machine; z3", ""),
    "C15": ("3/C15", "symbolic execution of real plans with the abort point (who raises, at which event or evaluator call) as solver integers; recorded event streams checked for bracketing, exactly-once ordered delivery and abort latching; z3 decides path feasibility (finite domains: equals exhaustive exploration of the bounded schedule space)", ""),
    "C19": ("3/C19", "symbolic execution of PluginManager lookups on a bounded symbolic string (character codes and length are z3 integers; dict/set membership forks over the registry's constants); result compared with a reference lookup formula; z3", ""),
    "C18": ("3/C18", "symbolic execution of the configuration classes' own model validators (called directly on objects holding symbolic arrays: normalisation, clamping, bound checks, perturbation canonicalisation applied twice) decided by z3; plus complete traversal of real validated configurations for frozenness and dump/validate round trips", "Partial: pydantic-core's coercion is not encoded."),
    "C16": ("3/C16", "self-composition: the sampler/evaluator code is executed symbolically twice with the same seed and different hidden environments; every random draw is a solver variable indexed by (stream, draw number) or a havoc variable; request equality decided by z3", "Partial: non-interference of ropt's own code; traces through real SciPy/NumPy generators are not claimed."),
    "C20": ("3/C20", "symbolic execution of ExternalOptimizer.start against stubbed process/pipe/signal primitives under a symbolic life schedule (death point, return code, callback failure point, write/read retries are solver integers); outcome obligations decided per path, z3 decides feasibility; plus a loopback of both real protocol halves (ExternalOptimizer.start against _PluginOptimizer.run over queues) compared with the in-process run of the same scripted algorithm on symbolic points, values and NaN flags, and the real pipe communicator on a FIFO model of symbolic capacity", "Partial: trace equality is decided for scripted algorithms, not for real SciPy runs; the kernel's FIFO, signals and timing are modelled, not executed."),
    "C11": ("3/C11", "differential symbolic execution: the same user-domain problem through ropt with and without symbolic scaling transforms (validators called directly with the transforms as context, the public model_validate(dict, context=...) and the BasicOptimizer route as well); equality/equivalence obligations in non-linear real arithmetic decided by z3 (case split, denominator clearing)", ""),
    "C17": ("3/C17", "symbolic execution of SciPySampler with the SciPy distributions/QMC engines stubbed by fresh symbols (every drawn number is a solver variable); entry-identity obligations decided by z3", ""),
    "C06": ("3/C06", "symbolic execution of the evaluator-request layer with a distinct solver variable per evaluator number; label/identity obligations and garbage-invariance by self-composition decided by z3", ""),
    "C09": ("3/C09", "symbolic execution of EnsembleOptimizer/EnsembleEvaluator with a scripted optimizer, every mask enumerated and the fixed variables' values symbolic; identity obligations decided by z3", ""),
    "C08": ("3/C08", "symbolic execution of SciPyOptimizer construction/start with scipy.optimize replaced by recorders; feasibility-equivalence and Jacobian-sign obligations over symbolic bounds, values and rows decided by z3", ""),
    "C07": ("3/C07", "symbolic execution of the callables SciPy would receive under a request script whose steps (which callable, which pool point) are solver variables; returned values compared with the per-point symbols; behind the callback the real EnsembleOptimizer/EnsembleEvaluator on single points and batches with symbolic affine realizations; z3", ""),
    "C10": ("3/C10", "symbolic execution of fix_perturbations + _perturb_variables/_apply_bounds through EnsembleEvaluator.calculate; linear/bilinear obligations decided by z3", ""),
    "C01": ("3/C01", "symbolic execution of EnsembleEvaluator.calculate on z3-backed arrays; per-path NRA obligations decided by z3 (cvc5 cross-check)", ""),
}
NOT_APPLICABLE = {}
ALL = [f"C{i:02d}" for i in range(1, 21)]


def main():
    checks = []
    for pid, (ref, tech, extra) in CHECKS.items():
        checks.append({
            "property_id": pid,
            "quick_cmd": f"./check {pid} --tier quick",
            "thorough_cmd": f"./check {pid} --tier thorough",
            "evidence_file": f"/verif/evidence/{pid}.json",
            "replay_cmd_template": f"./check {pid} --replay {{path}}",
            "engine": "symnp",
            "level_claimed": {"category": "model_checking", "text": (LEVEL_TEXT + " " + extra).strip(), "design_ref": ref},
            "level_note": NOTE,
            "technique": tech,
        })
    na = []
    for pid in ALL:
        if pid not in CHECKS:
            na.append({"property_id": pid, "reason": NOT_APPLICABLE.get(pid, "harness not built yet (work in progress; see DESIGN.md section 3)")})
    m = {
        "version": 1,
        "setup_cmd": "sh bin/setup.sh",
        "hooks": {
            "guard": "ROPT_VERIF",
            "enable": "no source hooks are needed: the checks import /repo/src as it is and patch only the module global `np` of the loaded ropt modules inside the checker's own process",
            "baseline_off_cmd": "cd /repo && /venv/bin/python -m pytest -ra -q -p no:cacheprovider --timeout=900 --continue-on-collection-errors",
            "source_commits": [],
            "add_only": True,
        },
        "engines": [{
            "name": "symnp", "path": "/verif/symnp",
            "serves_properties": sorted(CHECKS),
            "kind_free_text": "symbolic execution of NumPy-level Python (object arrays of z3 terms answering NumPy's dispatch protocols, path forking by re-execution) + z3/cvc5",
        }],
        "checks": checks,
        "notes": "Solver-based checking of the real code; see DESIGN.md. known_findings.json lists recorded defects and fix commits.",
        "not_applicable": na,
    }
    json.dump(m, open(os.path.join(V, "MANIFEST.json"), "w"), indent=1)
    print("checks:", len(checks), "not_applicable:", len(na))


if __name__ == "__main__":
    main()
