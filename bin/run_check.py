"""Entry point: ./check <PROPERTY> [--tier quick|thorough] [--replay FILE] [--case ID] [--jobs N]"""
from __future__ import annotations

import argparse
import importlib
import os
import sys


def main():
    import warnings
    warnings.filterwarnings('ignore')
    import numpy as _np
    _np.seterr(all='ignore')
    ap = argparse.ArgumentParser()
    ap.add_argument("prop")
    ap.add_argument("--tier", default=os.environ.get("VERIF_TIER") or "quick", choices=["quick", "thorough"])
    ap.add_argument("--replay")
    ap.add_argument("--case", action="append")
    ap.add_argument("--jobs", type=int)
    ap.add_argument("--list", action="store_true")
    a = ap.parse_args()
    pid = a.prop.upper()
    mod = importlib.import_module(f"checks.{pid.lower()}")
    if hasattr(mod, "main"):
        return mod.main(a)
    from symnp import harness

    cases = mod.build_cases(a.tier if not a.replay else "thorough")
    if a.list:
        for c in cases:
            print(c.id, c.family, c.describe())
        return 0
    if a.replay:
        from symnp.proxy import instrument
        instrument("ropt")
        return harness.replay_file(a.replay, cases)
    if a.case:
        cases = [c for c in cases if c.id in a.case]
    meta = mod.META
    return harness.run_check(
        pid, cases, tier=a.tier,
        bounds={"this_tier": meta["bounds"].get(a.tier), **meta["bounds"]},
        stubs=meta["stubs"], assumptions=meta["assumptions"], jobs=a.jobs,
        timeout_ms=meta.get("timeout_ms", {}).get(a.tier),
        budget_s=meta.get("budget_s", {}).get(a.tier),
        extra=meta.get("extra"),
    )


if __name__ == "__main__":
    sys.exit(main())
