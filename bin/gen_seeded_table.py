"""Print the markdown table of one seeding round from seeded/*/meta.json (used for DESIGN.md 7.6)."""
import glob, json, os, re, sys

rnd = int(sys.argv[1]) if len(sys.argv) > 1 else 3
rows = []
for d in sorted(glob.glob(os.path.join(os.path.dirname(__file__), "..", "seeded", "*"))):
    m = json.load(open(os.path.join(d, "meta.json")))
    if m.get("round", 1) != rnd:
        continue
    cid = os.path.basename(d)
    head = open(os.path.join(d, "notes.md")).readline().strip().lstrip("# ").strip()
    head = re.sub(r"^(C\d+\s*[/ ]?\s*)?(m\d|M\d|mutation \d|Mutation \d)?\s*[-:–—]*\s*", "", head)
    fr = m["first_run_of_check"]
    first = "caught" if fr["exit"] == 1 else ("harness error" if fr["exit"] == 2 else "missed")
    cur = m.get("current_run_of_check", {})
    now = "caught" if cur.get("detected") else "NOT caught"
    if m.get("obsolete"):
        now = "no longer a violation (neutralised by a later repair)"
    elif m.get("outside_bounds") and not cur.get("detected"):
        now = "NOT caught (outside the bounds, see below)"
    if cur.get("by_check") and cur["by_check"] != m["property"]:
        now += f" (by {cur['by_check']})"
    obl = ", ".join(sorted({o.split(":")[-1].split(".")[-1][:40] for o in cur.get("violated_obligations", [])})[:3])
    rows.append(f"| {cid} | {head[:110]} | {first} | {now} | {obl} |")
print("| change | what it is | first run | now | obligations that fire now |")
print("|---|---|---|---|---|")
print("\n".join(rows))
