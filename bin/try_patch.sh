#!/bin/sh
# usage: try_patch.sh <patch.diff> <PROP> [more PROPs...]
# Applies a candidate breaking change to /repo, runs the quick checks of the given properties, reverts.
P="$1"; shift
export VERIF_EVIDENCE_DIR=/tmp/verif_evidence_scratch   # evidence/ describes runs on the unchanged tree only
cd /repo || exit 2
git diff --quiet || { echo "repo dirty"; exit 2; }
git apply "$P" || { echo "patch does not apply"; exit 2; }
for id in "$@"; do
  cd /verif && ./check "$id" --tier "${TIER:-quick}" > /tmp/try_$id.log 2>&1; rc=$?
  echo "== $id exit=$rc  $(grep -c '^VIOLATION' /tmp/try_$id.log) violation lines; $(tail -1 /tmp/try_$id.log | cut -c1-160)"
  grep -A1 '^VIOLATION' /tmp/try_$id.log | grep -v '^VIOLATION\|^--' | head -4 | cut -c1-200
  grep '^HARNESS-ERROR\|^NON-REPRO' /tmp/try_$id.log | head -3 | cut -c1-200
done
cd /repo && git checkout -- . && git status --short
